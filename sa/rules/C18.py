"""C18 - C++ CAN frame wrapper: frames carry the binding's id, bus and size (narrow).

The four wrapper headers (can.h, i_can_schema.h, can_static_schema.h - a Jinja template with three loops -,
can_dynamic_schema.h) are instantiated abstractly (every {{expr}} becomes an opaque identifier, every {% for %}
is unrolled once; never rendered) and parsed by clang together with the abstract instance of dynamic.h.j2 and
stand-ins for the generated fcp.h / reflection.h.  On the typed AST of CanStaticSchema and CanDynamicSchema:

R18.1 frame assembly: the returned frame_t is {bus <- bus lookup by message name, sid <- id lookup by message name,
      dlc <- size of the encoded payload, data <- the encoded payload}
R18.2 every copy into a fixed-size array of the frame is bounded by that array (constant count, min(.., size) or a
      dominating size test that returns) and does not read past a shorter source
R18.3 an unknown (id, bus) is answered with nullopt: the name lookup falls through to nullopt and Decode tests it
R18.4 the 4-character bus tag of a frame is compared with a binding's bus name after removing the zero padding
R18.5 the static tables are rendered from one population (the CAN bindings) with the keys id / bus / name, and the
      run-time lookups use the same keys over the bindings of protocol "can"
"""

from __future__ import annotations

import os
import re
from typing import Dict, List, Optional, Set

from ..front_py import AnalysisError
from ..front_clang import cxx_ast, walk, CNode, parent_map
from ..front_jinja import JinjaBinding
from .cpp_codec import HDR_INCLUDES
from .dyn_codec import REFLECTION_STUB, strip, ref_name

HD = "plugins/fcp_cpp/fcp_cpp/"
FILES = ("can_static_schema.h", "can_dynamic_schema.h", "can.h", "i_can_schema.h", "i_schema.h")
FCP_STUB = ('#pragma once\n#include "decoders.h"\n#include "i_schema.h"\nnamespace fcp { class StaticSchema : public ISchema { public: '
            'std::optional<json> DecodeJson(std::string, std::vector<uint8_t>, std::string bus="default") const override; '
            'std::optional<std::vector<std::uint8_t>> EncodeJson(std::string, json) const override; }; }\n')


def abstract_cpp(src: str) -> str:
    src = re.sub(r"\{#.*?#\}", "", src, flags=re.S)
    src = re.sub(r"\{%.*?%\}", "", src, flags=re.S)
    return re.sub(r"\{\{(.*?)\}\}", lambda m: "J_" + re.sub(r"[^A-Za-z0-9_]+", "_", m.group(1).strip()).strip("_"), src, flags=re.S)


class Wrapper:
    def __init__(self, cls: CNode):
        self.cls = cls
        self.name = cls.get("name")
        self.methods: Dict[str, CNode] = {}
        for m in cls.inner:
            if m.kind == "CXXMethodDecl" and m.get("name") and any(c.kind == "CompoundStmt" for c in m.inner):
                self.methods.setdefault(m["name"], m)

    def body(self, name: str) -> Optional[CNode]:
        m = self.methods.get(name)
        return [c for c in m.inner if c.kind == "CompoundStmt"][0] if m is not None else None


def callee_name(c: CNode) -> Optional[str]:
    """free function call -> name ; member call -> member name"""
    if c.kind == "CallExpr" and c.inner:
        return ref_name(c.inner[0])
    if c.kind == "CXXMemberCallExpr" and c.inner:
        f = c.inner[0]
        while f.kind in ("ImplicitCastExpr", "ParenExpr") and f.inner:
            f = f.inner[0]
        return f.get("name") if f.kind == "MemberExpr" else None
    return None


def names_in(n: Optional[CNode]) -> Set[str]:
    return {y.get("referencedDecl", {}).get("name") for y in walk(n) if y.kind == "DeclRefExpr"} if n is not None else set()


def member_calls(n: Optional[CNode]) -> Set[str]:
    return {callee_name(y) for y in walk(n) if y.kind == "CXXMemberCallExpr"} - {None} if n is not None else set()


def array_len(qt: str) -> Optional[int]:
    m = re.search(r"array<[^,>]+,\s*(\d+)>", qt or "")
    return int(m.group(1)) if m else None


def run(eng, rep) -> None:
    rep.explanation = (
        "Typed AST (clang) of the abstract instances of the four CAN wrapper headers: frame assembly provenance, bounded copies into the "
        "fixed-size frame arrays, the unknown-frame answer, the padding-insensitive bus comparison, and agreement of the static tables with "
        "the run-time lookups on population and keys. This decides the wrapper's own glue; payload bytes and decoded values are C03/C13's, "
        "and nothing about std::string/JSON run-time behaviour is decided."
    )
    rep.rule("R18.1", "frame_t{bus <- bus lookup(name), sid <- id lookup(name), dlc <- encoded size, data <- encoded bytes}")
    rep.rule("R18.2", "copies into the frame's fixed-size arrays are bounded by the array and do not over-read a shorter source")
    rep.rule("R18.3", "unknown (id, bus): the name lookup falls through to nullopt and Decode returns nullopt on it")
    rep.rule("R18.4", "the frame's 4-character bus tag is compared after removing its zero padding")
    rep.rule("R18.8", "Encode/Decode of the CAN wrappers do not write into the wrapper object's own storage (directly or through a local reference/iterator into a member)")
    rep.rule("R18.6", "a lookup key made of several variable texts keeps them apart (separator or fixed width): no two (id, bus) pairs share a key")
    rep.rule("R18.5", "static tables and run-time lookups: same population (CAN bindings) and keys (id, bus, name)")
    rep.rule("R18.7", "a generated table that a binary search walks is emitted in the order the search compares by (Jinja sort is case-insensitive by default)")
    from .lints import jinja_sort_vs_bisect
    jinja_sort_vs_bisect(eng, rep, "R18.7", [HD + f_ for f_ in FILES])
    rep.assume("bus names have 1-4 characters (the property's quantifier): a copy of a bus name into the 4-character tag is taken as bounded; payload bytes and values are C03/C13's; frame ids fit std::uint16_t")
    hdir = eng.path(*HD.rstrip("/").split("/"))
    srcs = {}
    for fn in FILES:
        p = os.path.join(hdir, fn)
        if not os.path.exists(p):
            raise AnalysisError("anchor vanished: %s%s" % (HD, fn))
        srcs[fn] = open(p, encoding="utf-8").read()
    dyn_p = os.path.join(hdir, "dynamic.h.j2")
    if not os.path.exists(dyn_p):
        raise AnalysisError("anchor vanished: %sdynamic.h.j2" % HD)
    files = {"dynamic.h": re.sub(r"\{\{.*?\}\}", "0", open(dyn_p, encoding="utf-8").read(), flags=re.S), "reflection.h": REFLECTION_STUB, "fcp.h": FCP_STUB}
    for fn in FILES:
        files[fn] = abstract_cpp(srcs[fn])
    pre = ""
    decls = None
    for _ in range(6):
        tu = HDR_INCLUDES + "#include <memory>\n#include <any>\n#include <utility>\n" + pre + '#include "can_static_schema.h"\n#include "can_dynamic_schema.h"\n'
        try:
            decls = cxx_ast(tu, [hdir], filt="fcp::can::", allow_errors=True, extra_files=files)
        except AnalysisError as e:
            rep.undecided("R18.1", HD + "can_static_schema.h", "-", "abstract instances", "clang cannot parse them: %s" % str(e)[:160])
            return
        errs = list(getattr(cxx_ast, "last_errors", []))
        und = sorted({m.group(1) for e_ in errs for m in [re.search(r"undeclared identifier '(J_\w+)'", e_)] if m})
        if not und:
            break
        pre += "".join("extern const int %s;\n" % u for u in und)
    foreign = [e for e in errs if "reflection" not in e]
    if foreign:
        rep.undecided("R18.1", HD + "can_static_schema.h", "-", "abstract instances", "do not type-check: %s" % foreign[0][-160:])
        return
    wr = {d.get("name"): Wrapper(d) for d in decls if d.kind == "CXXRecordDecl" and d.get("name") in ("CanStaticSchema", "CanDynamicSchema") and d.inner}
    frame = next((d for d in decls if d.kind == "CXXRecordDecl" and d.get("name") == "frame_t" and d.inner), None)
    if len(wr) != 2 or frame is None:
        raise AnalysisError("anchor vanished: CanStaticSchema / CanDynamicSchema / frame_t in the CAN wrapper headers")
    fields = [(f.get("name"), f.qtype) for f in frame.inner if f.kind == "FieldDecl"]
    rep.extra["frame_fields"] = fields
    order = [n for n, _ in fields]
    roles = {}
    for n, qt in fields:
        if "array<char" in qt:
            roles["bus"] = n
        elif "array<" in qt:
            roles["data"] = n
    scal = [n for n, qt in fields if "array" not in qt]
    if len(scal) == 2:
        a, b = scal
        qa = dict(fields)[a]
        roles["sid"], roles["dlc"] = (a, b) if "16" in qa or "32" in qa else (b, a)
    if set(roles) != {"bus", "sid", "dlc", "data"}:
        rep.undecided("R18.1", HD + "i_can_schema.h", "frame_t", "fields %s" % order, "frame layout not (char[4] bus, integer id, integer dlc, byte[8] data)")
        return

    for cname, w in sorted(wr.items()):
        F = HD + ("can_static_schema.h" if cname == "CanStaticSchema" else "can_dynamic_schema.h")
        # classify the lookups of this wrapper by what they consult
        lookups = {}
        for mn, m in w.methods.items():
            if mn in ("Encode", "Decode"):
                continue
            b = w.body(mn)
            lits = {y.get("value", "").strip('"') for y in walk(b) if y.kind == "StringLiteral"}
            refs_ = names_in(b)
            ps = [p for p in m.inner if p.kind == "ParmVarDecl"]
            by_name = len(ps) == 1 and "string" in ps[0].qtype
            if by_name and ("id" in lits or any(r and "fields_get_id" in r for r in refs_)) and "array" not in m.qtype.split("(")[0]:
                if "bus" in lits or any("fields_get_bus" in l for l in lits):
                    pass
                lookups.setdefault("id", mn)
            if by_name and ("bus" in lits or any("fields_get_bus" in l for l in lits)) and mn != lookups.get("id"):
                lookups.setdefault("bus", mn)
            if len(ps) == 2:
                lookups.setdefault("name", mn)
        enc = w.body("Encode")
        dec = w.body("Decode")
        if enc is None or dec is None:
            raise AnalysisError("anchor vanished: %s::Encode/Decode" % cname)
        locs = {v.get("name"): v for v in walk(enc) if v.kind == "VarDecl"}
        pm = parent_map(enc)
        copies = []  # (call, dst local, src names, count expr or None, kind)
        for c in walk(enc):
            if c.kind == "CallExpr" and callee_name(c) in ("copy", "copy_n"):
                args = c.inner[1:]
                dst = ref_name(next((y for y in walk(args[-1]) if y.kind == "DeclRefExpr"), None)) if args else None
                copies.append((c, dst, names_in(args[0]) if args else set(), args[1] if callee_name(c) == "copy_n" and len(args) == 3 else None, callee_name(c)))

        def prov(n: Optional[CNode], seen=None) -> Set[str]:
            """locals/params an expression depends on, through local initialisers and copies into locals"""
            seen = set() if seen is None else seen
            out = set()
            for nm in names_in(n):
                if nm is None or nm in seen:
                    continue
                seen.add(nm)
                out.add(nm)
                if nm in locs and locs[nm].inner:
                    out |= prov(locs[nm].inner[-1], seen)
                    for mc in member_calls(locs[nm].inner[-1]):
                        out.add("call:" + mc)
                for (c, dst, srcn, cnt, kind) in copies:
                    if dst == nm:
                        for s_ in srcn:
                            if s_ not in seen:
                                out |= prov_name(s_, seen)
            return out

        def prov_name(nm, seen):
            out = {nm}
            seen.add(nm)
            if nm in locs and locs[nm].inner:
                out |= prov(locs[nm].inner[-1], seen)
                for mc in member_calls(locs[nm].inner[-1]):
                    out.add("call:" + mc)
            return out

        encoded = next((nm for nm, v in locs.items() if v.inner and "EncodeJson" in member_calls(v.inner[-1])), None)
        mname = next((p.get("name") for p in w.methods["Encode"].inner if p.kind == "ParmVarDecl" and "string" in p.qtype), None)
        # ---- R18.1 ------------------------------------------------------------------------------
        rets = [r for r in walk(enc) if r.kind == "ReturnStmt" and any(y.kind == "InitListExpr" and "frame_t" in y.qtype for y in walk(r))]
        if not rets or encoded is None or mname is None:
            rep.undecided("R18.1", F, cname + "::Encode", "return frame_t{...}", "frame construction / EncodeJson result not found in the recognised form")
        else:
            il = next(y for y in walk(rets[-1]) if y.kind == "InitListExpr" and "frame_t" in y.qtype)
            elems = [e for e in il.inner if e.kind]
            if len(elems) != len(order):
                rep.undecided("R18.1", F, cname + "::Encode", "return frame_t{...}", "%d initialisers for %d fields" % (len(elems), len(order)))
            else:
                for fname, e in zip(order, elems):
                    role = next(r for r, n in roles.items() if n == fname)
                    p = prov(e)
                    site = "frame.%s <- %s" % (fname, ", ".join(sorted(x for x in p if not x.startswith("call:")))[:60])
                    if role == "dlc":
                        # .size() taken on the encoded payload itself (through local initialisers, not through copies)
                        def size_of_encoded(n, depth=0):
                            for y in walk(n):
                                if y.kind == "CXXMemberCallExpr" and callee_name(y) == "size" and encoded in names_in(y.inner[0]):
                                    return True
                            if depth < 3:
                                for nm in names_in(n):
                                    if nm in locs and nm != encoded and locs[nm].inner and "array" not in locs[nm].qtype and size_of_encoded(locs[nm].inner[-1], depth + 1):
                                        return True
                            return False
                        ok = size_of_encoded(e)
                        rep.check(ok, "R18.1", F, cname + "::Encode", site, "number of payload bytes produced by the codec", "the DLC is not the size of the encoded payload")
                    elif role == "data":
                        rep.check(encoded in p, "R18.1", F, cname + "::Encode", site, "the encoded payload", "the frame's data are not the bytes produced by the codec")
                    else:
                        want = lookups.get("id" if role == "sid" else "bus")
                        via = {x[5:] for x in p if x.startswith("call:")}
                        if want is None:
                            rep.undecided("R18.1", F, cname + "::Encode", site, "lookup of the binding's %s not identified" % ("id" if role == "sid" else "bus"))
                        else:
                            okl = want in via and mname in p
                            other = lookups.get("bus" if role == "sid" else "id")
                            rep.check(okl and not (other in via and want not in via), "R18.1", F, cname + "::Encode", site, "%s(%s)" % (want, mname),
                                      "the frame's %s does not come from the %s lookup of the encoded message's name" % (fname, "id" if role == "sid" else "bus"))
        # ---- R18.2 ------------------------------------------------------------------------------
        for mn, m in sorted(w.methods.items()):
            b = w.body(mn)
            mlocs = {v.get("name"): v for v in walk(b) if v.kind == "VarDecl"}
            for c in walk(b):
                if not (c.kind == "CallExpr" and callee_name(c) in ("copy", "copy_n")):
                    continue
                args = c.inner[1:]
                if len(args) < 3:
                    continue
                dstn = ref_name(next((y for y in walk(args[-1]) if y.kind == "DeclRefExpr"), None))
                N = array_len(mlocs[dstn].qtype) if dstn in mlocs else None
                if N is None:
                    continue
                srcn = names_in(args[0])
                site = "%s(%s..., -> %s[%d])" % (callee_name(c), ",".join(sorted(x for x in srcn if x)), dstn, N)
                src_is_bus = any("bus" in (x or "") for x in srcn) or any(y.kind == "StringLiteral" and y.get("value") == '"bus"' for y in walk(args[0]))
                # a dominating size test on the source that returns
                guard = False
                for st in walk(b):
                    if st.kind == "IfStmt" and any(y.kind == "ReturnStmt" for y in walk(st.inner[1])) and "size" in member_calls(st.inner[0]) and (names_in(st.inner[0]) & srcn):
                        cmpn = [y for y in walk(st.inner[0]) if y.kind == "BinaryOperator" and y.get("opcode") in (">", ">=")]
                        bound = [int(y.get("value")) for y in walk(st.inner[0]) if y.kind == "IntegerLiteral"] + ([N] if "size" in member_calls(st.inner[0]) and dstn in names_in(st.inner[0]) else [])
                        if cmpn and any(v <= N for v in bound) and st.get("range", {}).get("begin", {}).get("offset", 0) <= c.get("range", {}).get("begin", {}).get("offset", 1 << 60):
                            guard = True
                if callee_name(c) == "copy_n":
                    cnt = strip(args[1])
                    has_min = any(y.kind == "CallExpr" and callee_name(y) == "min" for y in walk(args[1]))
                    lit = int(cnt.get("value")) if cnt is not None and cnt.kind == "IntegerLiteral" else None
                    if has_min and (dstn in names_in(args[1]) or any(y.kind == "IntegerLiteral" and int(y.get("value")) <= N for y in walk(args[1]))):
                        rep.ok("R18.2", F, "%s::%s" % (cname, mn), site, "count = min(source size, array size)")
                    elif lit is not None and lit <= N:
                        if any("string" in (mlocs[x].qtype if x in mlocs else "") or "optional<std::string" in (mlocs[x].qtype if x in mlocs else "") for x in srcn):
                            rep.violation("R18.2", F, "%s::%s" % (cname, mn), site, "%d elements are copied out of a string that can be shorter (a bus name of fewer than %d characters): the read runs past the end of the string" % (lit, lit))
                        else:
                            rep.ok("R18.2", F, "%s::%s" % (cname, mn), site, "constant count within the array")
                    elif guard:
                        rep.ok("R18.2", F, "%s::%s" % (cname, mn), site, "a size test on the source returns before the copy")
                    elif "size" in member_calls(args[1]):
                        rep.violation("R18.2", F, "%s::%s" % (cname, mn), site, "the whole source is copied into a %d-element array without a bound: a payload of more than %d bytes (a CAN binding wider than 64 bits is accepted by the C++ generator) overflows the frame" % (N, N))
                    else:
                        rep.undecided("R18.2", F, "%s::%s" % (cname, mn), site, "count not in a recognised form")
                else:
                    if guard:
                        rep.ok("R18.2", F, "%s::%s" % (cname, mn), site, "a size test on the source returns before the copy")
                    elif src_is_bus:
                        rep.ok("R18.2", F, "%s::%s" % (cname, mn), site, "a bus name (1-4 characters by the property's quantifier) into the 4-character tag")
                    else:
                        rep.violation("R18.2", F, "%s::%s" % (cname, mn), site, "the whole source range is copied into a %d-element array without a bound: a source longer than %d elements overflows it" % (N, N))
        # ---- R18.3 ------------------------------------------------------------------------------
        ln = lookups.get("name")
        if ln is None:
            rep.undecided("R18.3", F, cname, "(id, bus) -> name lookup", "not identified")
        else:
            lb = w.body(ln)
            last = [s for s in lb.inner if s.kind][-1] if lb.inner else None
            fall = last is not None and last.kind == "ReturnStmt" and "nullopt" in names_in(last)
            # search form: `it = find_if(...); if (it == <end>) return std::nullopt; return it->name;`
            searched = any(st.kind == "IfStmt" and any(y.kind in ("CXXOperatorCallExpr", "BinaryOperator") for y in walk(st.inner[0])) and ({"end", "cend"} & member_calls(st.inner[0]))
                           and any(y.kind == "ReturnStmt" and "nullopt" in names_in(y) for y in walk(st.inner[1])) for st in lb.inner if st.kind == "IfStmt") \
                and any(y.kind == "CallExpr" and callee_name(y) in ("find_if", "find") for y in walk(lb))
            if fall:
                rep.ok("R18.3", F, "%s::%s" % (cname, ln), "fall-through: return std::nullopt", "no binding matches -> no name")
            elif searched:
                rep.ok("R18.3", F, "%s::%s" % (cname, ln), "if (it == end) return std::nullopt", "the search found nothing -> no name")
            elif not any("nullopt" in names_in(y) for y in walk(lb) if y.kind == "ReturnStmt"):
                rep.violation("R18.3", F, "%s::%s" % (cname, ln), "fall-through: return std::nullopt", "the (id, bus) lookup does not fall through to nullopt: an unknown frame is attributed to some message")
            else:
                rep.undecided("R18.3", F, "%s::%s" % (cname, ln), "return std::nullopt", "the lookup returns nullopt on some path; that it is the path on which nothing matched is not decided")
            dl = {v.get("name"): v for v in walk(dec) if v.kind == "VarDecl"}
            nv = next((nm for nm, v in dl.items() if v.inner and ln in member_calls(v.inner[-1])), None)
            tested = nv is not None and any(st.kind == "IfStmt" and nv in names_in(st.inner[0]) and "has_value" in member_calls(st.inner[0]) and any(y.kind == "ReturnStmt" and "nullopt" in names_in(y) for y in walk(st.inner[1])) for st in walk(dec))
            rep.check(bool(tested), "R18.3", F, cname + "::Decode", "if (!name.has_value()) return std::nullopt", "unknown frames are reported as unknown", "Decode does not return nullopt when the (id, bus) lookup finds nothing")
            # ---- R18.4 --------------------------------------------------------------------------
            strs = [v for v in walk(lb) if v.kind == "VarDecl" and "string" in v.qtype and v.inner]
            tagp = next((p.get("name") for p in w.methods[ln].inner if p.kind == "ParmVarDecl" and "array<char" in p.qtype), None)
            sv = next((v for v in strs if tagp in names_in(v.inner[-1])), None)
            eq3 = [y for y in walk(lb) if y.kind == "CallExpr" and callee_name(y) == "equal" and len(y.inner) == 4 and tagp is not None and tagp in names_in(y.inner[3])] if sv is None else []
            if eq3:
                # compared in place with the three-iterator std::equal: only as many characters as the binding's bus name has are looked at
                pad_test = any(y.kind == "BinaryOperator" and y.get("opcode") in ("==", "!=") and tagp in names_in(y) and any(z.kind in ("CharacterLiteral", "IntegerLiteral") and int(z.get("value", 1)) == 0 for z in walk(y)) for y in walk(lb)) \
                    or any(y.kind == "CallExpr" and callee_name(y) in ("all_of", "none_of", "find", "strnlen", "strlen") for y in walk(lb))
                if pad_test:
                    rep.undecided("R18.4", F, "%s::%s" % (cname, ln), "std::equal(bus.begin(), bus.end(), tag.begin()) plus a test of the padding", "in-place comparison; that the rest of the tag is checked to be padding is not decided")
                else:
                    rep.violation("R18.4", F, "%s::%s" % (cname, ln), "std::equal(bus.begin(), bus.end(), %s.begin())" % tagp,
                                  "the tag is compared with the three-iterator std::equal and nothing tests what follows: a binding's bus only has to be a prefix of the frame's tag, so a frame from bus \"pt1\" is attributed to the binding on bus \"pt\"")
            elif tagp is None or sv is None:
                rep.undecided("R18.4", F, "%s::%s" % (cname, ln), "conversion of the bus tag", "not found in the recognised form")
            else:
                mcs = member_calls(sv.inner[-1])
                fcs = {callee_name(y) for y in walk(sv.inner[-1]) if y.kind == "CallExpr"}
                if fcs & {"strnlen", "strlen", "find"} or "c_str" in mcs or ("data" in mcs and "end" not in mcs and not ({"begin", "end"} <= mcs)):
                    rep.ok("R18.4", F, "%s::%s" % (cname, ln), "std::string %s(tag.data(), strnlen(...))" % sv.get("name"), "padding removed before the comparison")
                elif {"begin", "end"} <= mcs:
                    rep.violation("R18.4", F, "%s::%s" % (cname, ln), "std::string %s(tag.begin(), tag.end())" % sv.get("name"),
                                  "the 4-character tag is compared with its zero padding included: a binding on a bus whose name has fewer than 4 characters never matches, its frames are reported as unknown")
                else:
                    rep.undecided("R18.4", F, "%s::%s" % (cname, ln), "conversion of the bus tag", "form not recognised")
    # ---- R18.5 ----------------------------------------------------------------------------------
    jb = JinjaBinding(eng)
    try:
        st_t = jb.template(HD + "can_static_schema.h")
        loops = st_t.loops()
        from jinja2 import nodes as J
        from ..front_jinja import JTemplate
        its = set()
        for lp in loops:
            # the population a loop runs over: the iterable with pure re-shaping filters (list, sort) removed, `{% set %}` aliases followed
            e = lp.node.iter
            assigns_ = st_t.assigns()
            hops = 0
            while True:
                if isinstance(e, J.Name) and len(assigns_.get(e.name, [])) == 1 and hops < 4:
                    e = assigns_[e.name][0].node
                    hops += 1
                    continue
                if isinstance(e, J.Filter) and e.name in ("list", "sort", "unique"):
                    e = e.node
                    continue
                if isinstance(e, J.Filter) and e.name in ("selectattr", "rejectattr", "select", "reject"):
                    site = "for %s in ... | %s(%s)" % (lp.target, e.name, ", ".join(JTemplate.src(a) for a in e.args))
                    if (e.name in ("selectattr", "rejectattr") and len(e.args) == 1) or (e.name in ("select", "reject") and not e.args):
                        rep.violation("R18.5", HD + "can_static_schema.h", "tables", site, "the bindings are filtered by the truth value of %s: a binding whose value is 0 (CAN id 0 is valid) or empty is left out of the static tables although the run-time lookup has it" % (JTemplate.src(e.args[0]) if e.args else "each element"))
                    else:
                        rep.undecided("R18.5", HD + "can_static_schema.h", "tables", site, "the bindings are filtered by a test; that every CAN binding with an id passes is not decided")
                    e = e.node
                    continue
                break
            its.add(JTemplate.src(e).replace('"', "'").replace(" ", ""))
        rep.check(len(loops) >= 1 and its == {"fcp.get_matching_impls('can')"}, "R18.5", HD + "can_static_schema.h", "tables", "%d loops over %s" % (len(loops), sorted(its)), "every table is rendered from the CAN bindings",
                  "the static tables are not all rendered from fcp.get_matching_impls('can')")
        txt = srcs["can_static_schema.h"]
        keys_ok = "impl.fields.get('id')" in txt and "impl.fields.get('bus'" in txt and "impl.name" in txt
        rep.check(keys_ok, "R18.5", HD + "can_static_schema.h", "tables", "keys impl.fields['id'], impl.fields['bus'], impl.name", "the binding's id, bus and name", "a static table is not keyed by the binding's id / bus / name")
    except Exception as e:  # template not loadable: not decided
        rep.undecided("R18.5", HD + "can_static_schema.h", "tables", "Jinja loops", str(e)[:120])
    # ---- R18.8: Encode / Decode leave the wrapper's own state alone ----------------------------------
    # a local REFERENCE (or iterator / pointer) into a data member, written through: what one call stores is seen by the next
    for cname, w in sorted(wr.items()):
        F_ = HD + ("can_static_schema.h" if cname == "CanStaticSchema" else "can_dynamic_schema.h")
        for mname_ in ("Encode", "Decode", "DecodeMsg", "EncodeJson", "DecodeJson"):
            b = w.body(mname_)
            if b is None:
                continue

            def from_this(e, tainted) -> bool:
                for y in walk(e):
                    if y.kind == "CXXThisExpr":
                        return True
                    if y.kind == "DeclRefExpr" and y.get("referencedDecl", {}).get("id") in tainted:
                        return True
                return False
            tainted: Set[str] = set()   # local variables that denote storage inside *this (references, iterators, pointers)
            refs: Dict[str, str] = {}
            changed = True
            while changed:
                changed = False
                for d in walk(b):
                    if d.kind != "VarDecl" or d.get("id") in tainted or not d.inner:
                        continue
                    qt = d.qtype or ""
                    is_ref = qt.rstrip().endswith("&") and not qt.lstrip().startswith("const")
                    is_iter = "iterator" in (d.desugared or qt) and "const_iterator" not in (d.desugared or qt)
                    is_ptr = qt.rstrip().endswith("*") and "const " not in qt
                    if (is_ref or is_iter or is_ptr) and from_this(d.inner[-1], tainted):
                        tainted.add(d.get("id"))
                        refs[d.get("id")] = d.get("name")
                        changed = True
            n_w = 0
            for x in walk(b):
                lhs = None
                if x.kind in ("BinaryOperator", "CompoundAssignOperator") and (x.get("opcode") == "=" or x.kind == "CompoundAssignOperator"):
                    lhs = x.inner[0]
                elif x.kind == "CXXOperatorCallExpr" and len(x.inner) >= 3 and any(y.kind == "DeclRefExpr" and y.get("referencedDecl", {}).get("name") == "operator=" for y in walk(x.inner[0])):
                    lhs = x.inner[1]
                elif x.kind == "CallExpr" and callee_name(x) in ("copy", "copy_n", "fill", "fill_n", "memcpy", "memset", "transform") and len(x.inner) > 1:
                    # the destination argument of a copying algorithm
                    lhs = x.inner[-1] if callee_name(x) in ("copy", "copy_n", "transform") else x.inner[1]
                if lhs is None:
                    continue
                hit = [refs[y["referencedDecl"]["id"]] for y in walk(lhs) if y.kind == "DeclRefExpr" and y.get("referencedDecl", {}).get("id") in refs]
                direct = any(y.kind == "CXXThisExpr" for y in walk(lhs))
                if hit or direct:
                    n_w += 1
                    rep.violation("R18.8", F_, "%s::%s" % (cname, mname_), "write through %s" % (("'%s'" % hit[0]) if hit else "a member of this"), "%s() writes into the wrapper object's own storage (%s): what one call leaves there is still there for the next, so a frame can carry bytes of an earlier message" % (mname_, ("the local '%s' refers to a data member" % hit[0]) if hit else "a data member is assigned"))
            if n_w == 0:
                rep.ok("R18.8", F_, "%s::%s" % (cname, mname_), "stores in the body", "none goes to storage inside *this (%d local references into members)" % len(refs))
    # ---- R18.6: composite keys are injective -------------------------------------------------------
    n_keys = 0
    for cname, w_ in sorted(wr.items()):
        F_ = HD + ("can_static_schema.h" if cname == "CanStaticSchema" else "can_dynamic_schema.h")
        scopes = [(m_.get("name") or "<ctor>", m_) for m_ in w_.cls.inner if m_.kind in ("CXXMethodDecl", "CXXConstructorDecl") and any(c.kind == "CompoundStmt" for c in m_.inner)]
        for mname_, m_ in scopes:
            for c in walk(m_):
                if c.kind != "CXXMemberCallExpr" or callee_name(c) not in ("find", "emplace", "at", "count", "insert", "try_emplace", "insert_or_assign", "erase"):
                    continue
                args = c.inner[1:]
                if not args:
                    continue
                key = args[0]
                # flatten string concatenation  a + b + c
                def flat(x):
                    x0 = x
                    while x0.kind in ("ImplicitCastExpr", "MaterializeTemporaryExpr", "CXXBindTemporaryExpr", "ExprWithCleanups", "ParenExpr", "CXXConstructExpr", "CXXFunctionalCastExpr") and len([i for i in x0.inner if i.kind]) == 1:
                        x0 = [i for i in x0.inner if i.kind][0]
                    if x0.kind == "CXXOperatorCallExpr" and len(x0.inner) == 3 and any(y.kind == "DeclRefExpr" and y.get("referencedDecl", {}).get("name") == "operator+" for y in walk(x0.inner[0])):
                        return flat(x0.inner[1]) + flat(x0.inner[2])
                    return [x0]
                parts = flat(key)
                if len(parts) < 2:
                    continue
                n_keys += 1
                def literal(p_):
                    return any(y.kind in ("StringLiteral", "CharacterLiteral") for y in walk(p_)) and not any(y.kind in ("DeclRefExpr", "MemberExpr", "CallExpr", "CXXMemberCallExpr") for y in walk(p_))
                adjacent = [(a_, b_) for a_, b_ in zip(parts, parts[1:]) if not literal(a_) and not literal(b_)]
                site = "%s: key of %s(...)" % (mname_, callee_name(c))
                if adjacent:
                    rep.violation("R18.6", F_, "%s::%s" % (cname, mname_), site, "the lookup key is made by concatenating two variable-length texts with nothing between them: different (id, bus) pairs give the same key (id 1 on bus \"2ab\" and id 12 on bus \"ab\"), so a frame can be attributed to another binding")
                else:
                    rep.ok("R18.6", F_, "%s::%s" % (cname, mname_), site, "the variable parts of the key are separated by constants")
    rep.ok("R18.6", "-", "-", "composite lookup keys in the CAN schemas", "%d found" % n_keys)
    w = wr["CanDynamicSchema"]
    for mn in sorted(set(w.methods) - {"Encode", "Decode"}):
        b = w.body(mn)
        lits = {y.get("value", "").strip('"') for y in walk(b) if y.kind == "StringLiteral"}
        if not (lits & {"id", "bus"}):
            continue
        if "can" in lits:
            rep.ok("R18.5", HD + "can_dynamic_schema.h", "CanDynamicSchema::" + mn, "impl.protocol == \"can\" filter; keys %s" % sorted(lits & {"id", "bus"}), "only CAN bindings are consulted")
            continue
        # the lookup may search a member that the constructor fills with the CAN bindings only
        def can_filtered_members():
            out = set()
            for c_ in w.cls.inner:
                if c_.kind != "CXXConstructorDecl":
                    continue
                for ini in c_.inner:
                    if ini.kind != "CXXCtorInitializer":
                        continue
                    mem = ini.get("anyInit", {}).get("name")
                    texts = {y.get("value", "").strip('"') for y in walk(ini) if y.kind == "StringLiteral"}
                    for y in walk(ini):
                        nm = callee_name(y) if y.kind in ("CallExpr", "CXXMemberCallExpr") else None
                        if nm in w.methods:
                            texts |= {z.get("value", "").strip('"') for z in walk(w.body(nm)) if z.kind == "StringLiteral"}
                    if mem and "can" in texts:
                        out.add(mem)
            return out
        cfm = can_filtered_members()
        used_members = {y.get("name") for y in walk(b) if y.kind == "MemberExpr"}
        for y in walk(b):
            nm = callee_name(y) if y.kind in ("CallExpr", "CXXMemberCallExpr") else None
            if nm in w.methods and nm != mn:
                used_members |= {z.get("name") for z in walk(w.body(nm)) if z.kind == "MemberExpr"}
        if cfm & used_members:
            rep.ok("R18.5", HD + "can_dynamic_schema.h", "CanDynamicSchema::" + mn, "searches %s, filled by the constructor with the protocol == \"can\" bindings" % sorted(cfm & used_members), "only CAN bindings are consulted")
        else:
            rep.violation("R18.5", HD + "can_dynamic_schema.h", "CanDynamicSchema::" + mn, "impl.protocol == \"can\" filter; keys %s" % sorted(lits & {"id", "bus"}), "the run-time lookup consults bindings of every protocol")
