"""C11 - parser totality: every input yields a schema or a renderable error.

R11.1 Lark.parse sites: UnexpectedCharacters and UnexpectedEOF cannot escape a public entry
R11.2 Transformer.transform sites: VisitError cannot escape (callbacks are not raise-free)
R11.3 attempt()/unwrap() sites: the propagation exception is caught on every call path
R11.4 renderability: error-tuple shape agreement, sources registered before they can be cited
R11.5 cited position exists: UnexpectedEOF's line/column (-1) never reach a MetaData
"""

from __future__ import annotations

import ast
import re
from typing import List, Optional, Set

from ..front_py import AnalysisError, FuncInfo, walk_local, norm, dotted
from ..dataflow import Defs, Provenance, is_terminating, names_in
from ..excflow import ExcFlow, ext_class, RESULT_ATTEMPT, MAYBE_ATTEMPT, RESULT_UNWRAP, MAYBE_UNWRAP
from ..types_lite import members

ROOTS = ["fcp.parser.get_fcp", "fcp.parser.get_fcp_from_string"]


def run(eng, rep) -> None:
    prog, cg = eng.prog, eng.cg
    rep.explanation = (
        "Exception-escape analysis over the resolved call graph from the two public parse entry points: for "
        "every site that can raise by library contract (Lark.parse -> UnexpectedCharacters/UnexpectedEOF; "
        "Transformer.transform -> VisitError wrapping any callback exception; attempt()/unwrap()) the enclosing "
        "try handlers, @catch frames and lark's VisitError re-raise are followed up every call path; a path that "
        "reaches a public entry uncaught is a violation. Renderability: producer and consumer of FcpError.msg agree "
        "on the 3-tuple shape; the source cited by an error node is registered with the logger before the node can be "
        "created; the -1 position of UnexpectedEOF never reaches a MetaData."
    )
    rep.rule("R11.1", "UnexpectedCharacters and UnexpectedEOF from every reachable Lark.parse are handled before a public entry")
    rep.rule("R11.2", "VisitError from every reachable Transformer.transform is handled before a public entry")
    rep.rule("R11.3", "ResultAttemptError/MaybeAttemptError/UnwrapError from every reachable attempt()/unwrap() are handled or guarded")
    rep.rule("R11.4", "FcpError.msg tuple shape agrees between producers and Logger.error; add_source dominates parse under the cited key; error nodes carry .meta")
    rep.rule("R11.5", "no flow from UnexpectedEOF.line/column into MetaData")
    rep.rule("R11.6", "library calls with a raising contract (frozen table) outside semantic actions are handled before a public entry")
    rep.rule("R11.7", "rendering is a function of the registered sources: the renderer keeps no cache that add_source does not invalidate")
    rep.rule("R11.9", "a position taken from a lark exception that can be UnexpectedEOF is tested against its -1 sentinel (or the class is tested) before it is cited")
    from .lints import lark_sentinel_position
    lark_sentinel_position(eng, rep, "R11.9", ("fcp.parser", "fcp.error"))
    rep.rule("R11.8", "lark's own tree.meta (no file name) is read only where located meta-data is made from it")
    from .lints import raw_lark_meta
    raw_lark_meta(eng, rep, "R11.8", ("fcp.parser",))
    rep.assume("lark contract (frozen): Earley+dynamic lexer Lark.parse raises only UnexpectedCharacters / UnexpectedEOF; Transformer.transform wraps every callback exception in VisitError; UnexpectedEOF.line == column == -1")
    rep.assume("termination of the Earley parser; OSError from reading the top-level file is out of the property's quantifier (inputs are texts)")
    for r in ROOTS:
        prog.func(r)
    xf = ExcFlow(eng, ROOTS)
    UC = ("ext", ext_class("lark.exceptions.UnexpectedCharacters"))
    UE = ("ext", ext_class("lark.exceptions.UnexpectedEOF"))
    VE = ("ext", ext_class("lark.exceptions.VisitError"))

    # ---- R11.1 ---------------------------------------------------------------
    parse_sites = []
    for q in xf.reach:
        for cs in cg.sites_in(prog.functions[q]):
            if any(x.endswith("Lark.parse") for x in cs.externals):
                parse_sites.append(cs)
    rep.floor("R11.1", "Lark.parse sites reachable from the public entry points", len(parse_sites), 1)
    if not parse_sites:
        raise AnalysisError("anchor vanished: no call of Lark.parse reachable from get_fcp")
    for cs in parse_sites:
        for exc, nm in ((UC, "UnexpectedCharacters"), (UE, "UnexpectedEOF")):
            paths = xf.escapes(cs.caller, cs.node, exc)
            rep.check(not paths, "R11.1", cs.caller.file, cs.caller.qual, "%s raises %s" % (norm(cs.node), nm),
                      "handled on every call path", "%s raised by the parser escapes the public entry point" % nm, path=paths[0] if paths else None)
    # sibling handler sets (informational)
    hsets = {}
    for cs in parse_sites:
        names = []
        for t in xf.enclosing_tries(cs.caller, cs.node):
            for h in t.handlers:
                names.append(norm(h.type) if h.type is not None else "<bare>")
        hsets[cs.caller.qual] = sorted(names)
    if len({tuple(v) for v in hsets.values()}) > 1:
        rep.info("R11.1", "-", "-", "sibling parse sites", "handler sets differ: %s" % hsets)

    # ---- R11.2 ---------------------------------------------------------------
    tsites = [cs for cs in xf.transform_sites if cs.caller.qual in xf.reach]
    rep.floor("R11.2", "Transformer.transform sites reachable from the public entry points", len(tsites), 1)
    raisers = callback_raisers(eng, xf)
    rep.extra["callback_raisers"] = raisers[:40]
    for cs in tsites:
        paths = xf.escapes(cs.caller, cs.node, VE)
        if paths and not raisers:
            rep.undecided("R11.2", cs.caller.file, cs.caller.qual, norm(cs.node, 90), "no handler for VisitError, but no raiser found in callbacks under the may-raise table")
            continue
        rep.check(not paths, "R11.2", cs.caller.file, cs.caller.qual, "%s raises VisitError" % norm(cs.node, 90),
                  "handled on every call path", "an exception in a semantic action (%d raisers, e.g. %s) escapes the public entry point as VisitError" % (len(raisers), raisers[0] if raisers else "-"),
                  path=paths[0] if paths else None)

    # ---- R11.3 ---------------------------------------------------------------
    n_att = 0
    for q in sorted(xf.reach):
        f = prog.functions[q]
        if f.module.name in ("fcp.maybe", "fcp.result"):
            continue
        ft = eng.T.fn(f)
        nodes = list(walk_local(f.node))
        for n in list(nodes):
            if isinstance(n, ast.Lambda):
                nodes += list(ast.walk(n.body))
        for n in nodes:
            if not (isinstance(n, ast.Call) and isinstance(n.func, ast.Attribute)):
                continue
            if n.func.attr == "attempt":
                n_att += 1
                rt = ft.of(n.func.value)
                kinds = {u[0] for u in members(rt)} if rt else set()
                excs = []
                if not kinds or "result" in kinds or not kinds & {"result", "maybe"}:
                    excs.append((RESULT_ATTEMPT, "ResultAttemptError"))
                if not kinds or "maybe" in kinds or not kinds & {"result", "maybe"}:
                    excs.append((MAYBE_ATTEMPT, "MaybeAttemptError"))
                for exc, nm in excs:
                    paths = xf.escapes(f, n, exc)
                    rep.check(not paths, "R11.3", f.file, f.qual, "%s raises %s" % (norm(n, 90), nm), "enclosed by @catch / handler on every call path",
                              "attempt() can raise %s past the public entry point (no @catch frame on the path)" % nm, path=paths[0] if paths else None)
            elif n.func.attr in ("unwrap", "expect") and not n.args[1:]:
                rt = ft.of(n.func.value)
                kinds = {u[0] for u in members(rt)} if rt else set()
                if kinds and kinds <= {"inst", "prim", "list", "dict", "tuple", "set", "none"}:
                    continue
                if unwrap_guarded(f, n):
                    rep.ok("R11.3", f.file, f.qual, norm(n, 90), "unwrap guarded by an is_err()/is_some() test")
                    continue
                exc = MAYBE_UNWRAP if "maybe" in kinds else RESULT_UNWRAP
                paths = xf.escapes(f, n, exc)
                rep.check(not paths, "R11.3", f.file, f.qual, "%s raises UnwrapError" % norm(n, 90), "cannot escape a public entry",
                          "unguarded unwrap() can raise UnwrapError past the public entry point", path=paths[0] if paths else None)
    rep.floor("R11.3", "attempt() sites on the parse path", n_att, 1)

    # ---- R11.6 / R11.7 -----------------------------------------------------------
    r116(eng, rep, xf)
    r117(eng, rep)
    # ---- R11.4 ---------------------------------------------------------------
    r114(eng, rep, xf, parse_sites)
    # ---- R11.5 ---------------------------------------------------------------
    r115(eng, rep, xf, UE, UC)


LIB_RAISERS = {
    # callee (resolved) : (predicate on the call, exception class, text)
    "unicodedata.name": (lambda c: len(c.args) == 1, ValueError, "unicodedata.name(ch) raises ValueError for characters without a name (control characters) when no default is given"),
    "unicodedata.lookup": (lambda c: True, KeyError, "unicodedata.lookup raises KeyError for unknown names"),
    "builtins.next": (lambda c: len(c.args) == 1, StopIteration, "next(it) without a default raises StopIteration on an exhausted iterator"),
    "builtins.max": (lambda c: len(c.args) == 1 and not isinstance(c.args[0], (ast.List, ast.Tuple)) and not any(k.arg == "default" for k in c.keywords), ValueError, "max() of an empty iterable raises ValueError"),
    "builtins.min": (lambda c: len(c.args) == 1 and not isinstance(c.args[0], (ast.List, ast.Tuple)) and not any(k.arg == "default" for k in c.keywords), ValueError, "min() of an empty iterable raises ValueError"),
    "builtins.chr": (lambda c: not isinstance(c.args[0], ast.Constant) if c.args else False, ValueError, "chr() raises ValueError outside range(0x110000)"),
}
METHOD_RAISERS = {
    "index": (ValueError, "x.index(v) raises ValueError when v is absent"),
    "remove": (ValueError, "list.remove(v) raises ValueError when v is absent"),
}


def _mentions_truthy(test: ast.AST, name: str) -> Optional[bool]:
    """does `test` being true imply the list `name` is non-empty?  True / False (implies empty) / None"""
    t = test
    if isinstance(t, ast.Name) and t.id == name:
        return True
    if isinstance(t, ast.UnaryOp) and isinstance(t.op, ast.Not):
        r = _mentions_truthy(t.operand, name)
        return None if r is None else (not r)
    if isinstance(t, ast.Call) and dotted(t.func) == "len" and t.args and isinstance(t.args[0], ast.Name) and t.args[0].id == name:
        return True
    if isinstance(t, ast.Compare) and len(t.ops) == 1:
        l, r = t.left, t.comparators[0]
        is_len = lambda e: isinstance(e, ast.Call) and dotted(e.func) == "len" and e.args and isinstance(e.args[0], ast.Name) and e.args[0].id == name
        c = lambda e: e.value if isinstance(e, ast.Constant) and isinstance(e.value, int) else None
        if is_len(l) and c(r) is not None:
            if isinstance(t.ops[0], ast.Gt) and c(r) >= 0 or isinstance(t.ops[0], ast.GtE) and c(r) >= 1 or isinstance(t.ops[0], ast.NotEq) and c(r) == 0:
                return True
            if isinstance(t.ops[0], ast.Eq) and c(r) == 0 or isinstance(t.ops[0], ast.Lt) and c(r) == 1:
                return False
    if isinstance(t, ast.BoolOp) and isinstance(t.op, ast.And):
        if any(_mentions_truthy(v, name) is True for v in t.values):
            return True
    return None


def unguarded_empty_access(f: FuncInfo):
    """`L.pop()` / `L[-1]` / `L[0]` on a local list L that starts empty, not under a non-emptiness guard
    -> [(node, text)].  Guards: enclosing if/while/ifexp on L's truthiness, an earlier `if not L: return/continue/
    break/raise` in the same block, or an append to L earlier in the same block."""
    from ..dataflow import Defs, parent_map, is_terminating
    defs = Defs(f.node)
    pm = parent_map(f.node)
    out = []
    for n in walk_local(f.node):
        name = None
        if isinstance(n, ast.Call) and isinstance(n.func, ast.Attribute) and n.func.attr == "pop" and isinstance(n.func.value, ast.Name) and not n.args:
            name = n.func.value.id
        elif isinstance(n, ast.Subscript) and isinstance(n.ctx, ast.Load) and isinstance(n.value, ast.Name) and (
                (isinstance(n.slice, ast.Constant) and isinstance(n.slice.value, int)) or
                (isinstance(n.slice, ast.UnaryOp) and isinstance(n.slice.op, ast.USub) and isinstance(n.slice.operand, ast.Constant))):
            name = n.value.id
        if name is None:
            continue
        vals = defs.values(name)
        if not vals or name in defs.params:
            continue
        starts_empty = any(k == "assign" and ((isinstance(v, ast.List) and not v.elts) or (isinstance(v, ast.Call) and dotted(v.func) == "list" and not v.args)) for k, v, st in vals)
        only_lists = all(k == "assign" and isinstance(v, (ast.List, ast.Call, ast.ListComp)) for k, v, st in vals)
        if not (starts_empty and only_lists):
            continue
        guarded = False
        cur = n
        while id(cur) in pm and not guarded:
            par = pm[id(cur)]
            if isinstance(par, (ast.If, ast.While, ast.IfExp)):
                r = _mentions_truthy(par.test, name)
                in_body = (cur is par.body) if isinstance(par, ast.IfExp) else any(cur is b for b in par.body)
                in_else = (cur is par.orelse) if isinstance(par, ast.IfExp) else any(cur is b for b in par.orelse)
                if (r is True and in_body) or (r is False and in_else):
                    guarded = True
            if isinstance(par, ast.BoolOp) and isinstance(par.op, ast.And):
                idx = [i for i, v in enumerate(par.values) if v is cur]
                if idx and any(_mentions_truthy(v, name) is True for v in par.values[:idx[0]]):
                    guarded = True
            if isinstance(par, ast.Try) and any(cur is b for b in par.body):
                if any(h.type is None or "IndexError" in norm(h.type) or "Exception" in norm(h.type) for h in par.handlers):
                    guarded = True
            # earlier siblings
            for fld in ("body", "orelse", "finalbody"):
                blk = getattr(par, fld, None)
                if isinstance(blk, list) and any(cur is b for b in blk):
                    i = [j for j, b in enumerate(blk) if b is cur][0]
                    for prev in blk[:i]:
                        if isinstance(prev, ast.If) and _mentions_truthy(prev.test, name) is False and (is_terminating(prev.body) or isinstance(prev.body[-1], (ast.Continue, ast.Break))):
                            guarded = True
                        if isinstance(prev, ast.Expr) and isinstance(prev.value, ast.Call) and isinstance(prev.value.func, ast.Attribute) and prev.value.func.attr in ("append", "extend", "insert") and norm(prev.value.func.value) == name:
                            guarded = True
            cur = par
        if not guarded:
            out.append((n, name))
    return out


def r116(eng, rep, xf) -> None:
    prog, cg = eng.prog, eng.cg
    direct = cg.reachable(ROOTS)  # without the transformer registry edges: code whose exceptions lark does not wrap
    n = 0
    for q in sorted(direct):
        f = prog.functions[q]
        if f.module.name in ("fcp.maybe", "fcp.result") or q in xf.cb_class:
            continue
        ft = eng.T.fn(f)
        nodes = list(walk_local(f.node))
        for x in list(nodes):
            if isinstance(x, ast.Lambda):
                nodes += list(ast.walk(x.body))
        for c in nodes:
            if not isinstance(c, ast.Call):
                continue
            hit = None
            r = prog.resolve_expr_symbol(f.module, f, c.func) if isinstance(c.func, (ast.Name, ast.Attribute)) else None
            full = None
            if r and r[0] == "ext":
                full = r[1]
            elif r and r[0] == "builtin":
                full = "builtins." + r[1]
            if full in LIB_RAISERS and LIB_RAISERS[full][0](c):
                hit = (LIB_RAISERS[full][1], LIB_RAISERS[full][2])
            elif isinstance(c.func, ast.Attribute) and c.func.attr in METHOD_RAISERS and r is None:
                rt = ft.of(c.func.value)
                if rt is not None and any(u[0] in ("prim", "list", "tuple") for u in members(rt)):
                    hit = METHOD_RAISERS[c.func.attr]
            if hit is None:
                continue
            n += 1
            paths = xf.escapes(f, c, ("ext", hit[0]))
            rep.check(not paths, "R11.6", f.file, f.qual, norm(c, 70), "handled before a public entry", "%s; here it escapes the parser's public entry point" % hit[1], path=paths[0] if paths else None)
        for node, name in unguarded_empty_access(f):
            n += 1
            paths = xf.escapes(f, node, ("ext", IndexError))
            rep.check(not paths, "R11.6", f.file, f.qual, norm(node, 70), "handled before a public entry",
                      "list '%s' starts empty and this access is not under a non-emptiness test: it raises IndexError when the list is empty; here it escapes the parser's public entry point" % name, path=paths[0] if paths else None)
    rep.extra["library_raiser_sites"] = n
    rep.ok("R11.6", "-", "-", "%d functions outside semantic actions scanned against the library-raiser table" % len(direct), "%d matching call sites" % n)


def r117(eng, rep) -> None:
    prog, cg = eng.prog, eng.cg
    lg = prog.cls("fcp.error.Logger")
    err = lg.methods.get("error")
    add = lg.methods.get("add_source")
    if err is None or add is None:
        raise AnalysisError("anchor vanished: Logger.error / Logger.add_source")
    from ..dataflow import stores_in
    inval = set()
    for kind, tgt, st in stores_in(add.node):
        t = norm(tgt)
        if t.startswith("self."):
            inval.add(t.split(".")[1].split("[")[0])
    reach = [prog.functions[q] for q in cg.reachable([err.qual]) if prog.functions[q].module.name == "fcp.error"]
    for f in reach + [x for x in err.nested.values()]:
        if f is add or f.name == "__init__":
            continue
        for kind, tgt, st in stores_in(f.node):
            t = norm(tgt)
            if t.startswith("self."):
                attr = t.split(".")[1].split("[")[0]
                rep.check(attr in inval, "R11.7", f.file, f.qual, norm(st, 70), "cache invalidated by add_source",
                          "the renderer caches data derived from the sources in self.%s, which add_source never invalidates: after re-registering a source the diagnostic cites lines of the old text (or raises IndexError)" % attr)
    rep.ok("R11.7", lg.file, lg.qual, "%d rendering functions scanned" % len(reach), "no stale derived state")


def callback_raisers(eng, xf) -> List[str]:
    """Explicit raisers inside semantic actions and what they call (evidence for R11.2)."""
    prog, cg = eng.prog, eng.cg
    cbs = [q for q in xf.cb_class if q in xf.reach]
    sub = cg.reachable(cbs)
    out = []
    for q in sorted(sub):
        f = prog.functions[q]
        if f.module.name in ("fcp.maybe", "fcp.result"):
            continue
        for n in walk_local(f.node):
            if isinstance(n, ast.Assert):
                out.append("%s: %s" % (q, norm(n, 70)))
            elif isinstance(n, ast.Raise) and not (isinstance(n.exc, (ast.Name, ast.Call)) and "NotImplementedError" in norm(n.exc)):
                out.append("%s: %s" % (q, norm(n, 70)))
        if q in xf.cb_class or q == "fcp.parser._convert_params":
            for n in [y for x in walk_local(f.node) for y in ([x] if not isinstance(x, ast.Lambda) else ast.walk(x))]:
                if isinstance(n, ast.Subscript) and isinstance(n.ctx, ast.Load) and not isinstance(n.slice, ast.Slice):
                    root = n.value
                    while isinstance(root, (ast.Subscript, ast.Attribute)):
                        root = root.value
                    if isinstance(root, ast.Name) and not (isinstance(n.slice, ast.Constant) and n.slice.value == 0 and root.id == "args"):
                        out.append("%s: subscript %s" % (q, norm(n, 50)))
    return out


def unwrap_guarded(f: FuncInfo, call: ast.Call) -> bool:
    recv = call.func.value
    if not isinstance(recv, ast.Name):
        return False
    name = recv.id
    # dominated by `if name.is_err()/is_nothing(): <terminate>`  or inside `if name.is_ok()/is_some():`
    body = f.node.body

    def scan(stmts, guarded):
        for st in stmts:
            if any(n is call for n in ast.walk(st)):
                if guarded:
                    return True
                if isinstance(st, ast.If):
                    t = norm(st.test)
                    pos = t in ("%s.is_ok()" % name, "%s.is_some()" % name, "not %s.is_err()" % name, "not %s.is_nothing()" % name)
                    neg = t in ("%s.is_err()" % name, "%s.is_nothing()" % name, "not %s.is_ok()" % name, "not %s.is_some()" % name)
                    if any(n is call for b in st.body for n in ast.walk(b)):
                        return scan(st.body, pos)
                    return scan(st.orelse, neg)
                for fld in ("body", "orelse", "finalbody"):
                    sub = getattr(st, fld, None)
                    if isinstance(sub, list) and any(n is call for s in sub if isinstance(s, ast.AST) for n in ast.walk(s)):
                        return scan(sub, guarded)
                if isinstance(st, ast.Try):
                    for h in st.handlers:
                        if any(n is call for s in h.body for n in ast.walk(s)):
                            return scan(h.body, guarded)
                return guarded
            if isinstance(st, ast.If) and is_terminating(st.body):
                t = norm(st.test)
                if t in ("%s.is_err()" % name, "%s.is_nothing()" % name, "not %s.is_ok()" % name, "not %s.is_some()" % name):
                    guarded = True
            if isinstance(st, (ast.Assign, ast.AugAssign)) and name in {x.id for x in ast.walk(st) if isinstance(x, ast.Name) and isinstance(x.ctx, ast.Store)}:
                guarded = False
        return False

    return scan(body, False)


def r114(eng, rep, xf, parse_sites) -> None:
    prog, cg = eng.prog, eng.cg
    # (a) tuple shape: FcpError.__init__, results_in, Logger.error
    fe = prog.cls("fcp.error.FcpError")
    shapes = []
    for mname in ("__init__", "results_in"):
        m = fe.methods.get(mname)
        if m is None:
            raise AnalysisError("anchor vanished: FcpError.%s" % mname)
        for n in walk_local(m.node):
            tup = None
            if isinstance(n, ast.Assign) and isinstance(n.targets[0], ast.Attribute) and n.targets[0].attr == "msg" and isinstance(n.value, ast.List) and n.value.elts:
                tup = n.value.elts[0]
            if isinstance(n, ast.Call) and isinstance(n.func, ast.Attribute) and n.func.attr == "append" and norm(n.func.value) == "self.msg" and n.args:
                tup = n.args[0]
            if tup is not None:
                shp = shape(tup, prog, m)
                shapes.append((m.qual, shp))
                rep.check(shp == (3, 2), "R11.4", m.file, m.qual, norm(tup), "error entries are (msg, node, (file, line))",
                          "error entry does not have the (msg, node, (file, line)) shape the renderer unpacks")
    le = prog.functions.get("fcp.error.Logger.error")
    if le is None:
        raise AnalysisError("anchor vanished: Logger.error")
    unpack_ok = 0
    for n in ast.walk(le.node):
        tgt = None
        if isinstance(n, ast.For):
            tgt = n.target
            if isinstance(tgt, ast.Tuple) and len(tgt.elts) == 2 and "enumerate" in norm(n.iter):
                tgt = tgt.elts[1]
        elif isinstance(n, ast.Assign) and isinstance(n.targets[0], ast.Tuple):
            tgt = n.targets[0]
        if isinstance(tgt, ast.Tuple):
            shp = shape(tgt)
            if shp[0] == 3:
                unpack_ok += 1
                rep.check(shp == (3, 2), "R11.4", le.file, le.qual, norm(tgt), "renderer unpacks (msg, node, (file, line))", "renderer unpacks a different shape than the producers build")
    if not unpack_ok:
        rep.undecided("R11.4", le.file, le.qual, "unpacking of error.msg entries", "idiom not recognised")
    # (b) add_source dominates parse; key == cited filename's variable
    for cs in parse_sites:
        f = cs.caller
        cfg = eng.cfg(f)
        pnode = cfg.stmt_node_containing(cs.node)
        adds = [s for s in cg.sites_in(f) if "fcp.error.Logger.add_source" in s.callees]
        anodes = {cfg.stmt_node_containing(s.node) for s in adds} - {None}
        if not adds:
            # the parse may sit in a helper: then every call of the helper must be dominated by add_source in its caller,
            # with the text and the cited file handed over as arguments
            callers = [c2 for c2 in cg.callers_of(f.qual) if c2.caller.qual in xf.reach and c2.how != "by-name"]
            if callers:
                fps = [p.arg for p in f.params]
                all_ok = True
                for c2 in callers:
                    f2 = c2.caller
                    cfg2 = eng.cfg(f2)
                    adds2 = [s2 for s2 in cg.sites_in(f2) if "fcp.error.Logger.add_source" in s2.callees]
                    an2 = {cfg2.stmt_node_containing(s2.node) for s2 in adds2} - {None}
                    pn2 = cfg2.stmt_node_containing(c2.node)
                    dom = bool(an2) and pn2 is not None and cfg2.every_path_passes(pn2, an2)
                    rep.check(dom, "R11.4", f2.file, f2.qual, "add_source(...) before %s" % norm(c2.node, 50), "the source is registered before the helper that parses it is called",
                              "a parse error can be created before its source is registered with the logger (rendering raises KeyError)")
                    all_ok = all_ok and dom
                    # the registered text is the text handed to the helper's parse
                    if dom and cs.node.args and isinstance(cs.node.args[0], ast.Name) and cs.node.args[0].id in fps:
                        i_ = fps.index(cs.node.args[0].id)
                        actual = c2.node.args[i_] if i_ < len(c2.node.args) else next((k.value for k in c2.node.keywords if k.arg == fps[i_]), None)
                        for s2 in adds2:
                            if len(s2.node.args) > 1 and actual is not None:
                                rep.check(norm(s2.node.args[1]) == norm(actual), "R11.4", f2.file, f2.qual, "add_source(_, %s) / %s(... %s ...)" % (norm(s2.node.args[1]), f.name, norm(actual)),
                                          "the registered text is the parsed text", "the text registered with the logger is not the text that is parsed (cited lines may not exist)")
                rep.undecided("R11.4", f.file, f.qual, "cited file of errors built in %s" % f.name, "the parse sits in a helper; agreement of the cited file with the registered key across the call is not decided") if all_ok else None
                continue
        okd = bool(anodes) and pnode is not None and cfg.every_path_passes(pnode, anodes)
        rep.check(okd, "R11.4", f.file, f.qual, "add_source(...) before %s" % norm(cs.node), "the source is registered before any error can cite it",
                  "a parse error can be created before its source is registered with the logger (rendering raises KeyError)")
        pv = Provenance(f.node)   # full local resolution: atoms are access paths rooted at parameters / self / loop variables
        keyroots = set()
        for s in adds:
            if s.node.args:
                for a in pv.of(s.node.args[0]):
                    if not a.startswith(("const:", "call:")):
                        keyroots.add(a)
                # source text registered is the text parsed
                if len(s.node.args) > 1 and cs.node.args:
                    same = norm(s.node.args[1]) == norm(cs.node.args[0])
                    rebound = []
                    if same and isinstance(cs.node.args[0], ast.Name):
                        # ... and the variable is not re-bound between the registration and the parse
                        a_ln, p_ln = s.node.lineno, cs.node.lineno
                        for k_, v_, st_ in Defs(f.node).values(cs.node.args[0].id):
                            if a_ln < getattr(st_, "lineno", 0) < p_ln:
                                rebound.append(norm(st_, 70))
                    rep.check(same and not rebound, "R11.4", f.file, f.qual, "add_source(_, %s) / parse(%s)" % (norm(s.node.args[1]), norm(cs.node.args[0])),
                              "the registered text is the parsed text", "the text registered with the logger is not the text that is parsed%s: cited lines may not exist in the registered text (IndexError while rendering) or show other content" % ((" (it is changed in between: %s)" % rebound[0]) if rebound else ""))
        # MetaData filename args inside this function's handlers for the parse (directly, or through a
        # one-level helper that builds the MetaData from its parameters)
        def md_file_arg(n):
            fa = n.args[6] if len(n.args) >= 7 else None
            for k in n.keywords:
                if k.arg == "filename":
                    fa = k.value
            return fa

        def is_md(n):
            return isinstance(n, ast.Call) and cg.site_of.get(id(n)) and "fcp.specs.metadata.MetaData.__init__" in cg.site_of[id(n)].callees

        for t in xf.enclosing_tries(f, cs.node):
            for h in t.handlers:
                for n in ast.walk(h):
                    cited = []  # (expression in f, text)
                    if is_md(n):
                        fa = md_file_arg(n)
                        if fa is not None:
                            cited.append((fa, "MetaData(filename=%s)" % norm(fa)))
                    elif isinstance(n, ast.Call) and cg.site_of.get(id(n)) and len(cg.site_of[id(n)].callees) == 1 and cg.site_of[id(n)].how != "by-name":
                        g = prog.functions.get(cg.site_of[id(n)].callees[0])
                        passes_exc = h.name is not None and any(isinstance(x, ast.Name) and x.id == h.name for a_ in list(n.args) + [k.value for k in n.keywords] for x in ast.walk(a_))
                        if g is not None and g.module.name.startswith("fcp.parser") and g.cls is None and passes_exc:
                            gp = [p.arg for p in g.params]
                            gpv = Provenance(g.node)
                            for m in walk_local(g.node):
                                if is_md(m) and md_file_arg(m) is not None:
                                    for a in gpv.of(md_file_arg(m)):
                                        r0 = a.split(".")[0].split("[")[0]
                                        if r0 in gp:
                                            i = gp.index(r0)
                                            actual = n.args[i] if i < len(n.args) else next((k.value for k in n.keywords if k.arg == r0), None)
                                            if actual is not None:
                                                cited.append((actual, "%s(... %s=%s) -> MetaData(filename=%s)" % (g.name, r0, norm(actual), norm(md_file_arg(m)))))
                    def related(a, b):
                        return a == b or a.startswith(b + ".") or b.startswith(a + ".") or a.startswith(b + "[") or b.startswith(a + "[")
                    for fa, txt in cited:
                        roots = {a for a in pv.of(fa) if not a.startswith(("const:", "call:"))}
                        covered = bool(roots) and all(any(related(a, k) for k in keyroots) for a in roots)
                        rep.check(covered, "R11.4", f.file, f.qual, txt,
                                  "cited file is the one registered (%s)" % ",".join(sorted(keyroots)), "the error cites a file (%s) other than the one registered with the logger (%s)" % (",".join(sorted(roots)), ",".join(sorted(keyroots))))
    # (b2) the key a source is registered under and the key the renderer looks it up with are the same function of the file
    def key_kind(e: ast.AST) -> Optional[str]:
        t = norm(e, 200)
        if re.search(r"\.name$", t) or re.search(r"basename\(", t):
            return "basename"
        if re.match(r"^str\(", t) or re.search(r"\.filename$", t) or re.search(r"(as_posix|__fspath__)\(\)$", t):
            return "path"
        return None
    reg_kinds = set()
    for q in sorted(xf.reach):
        f_ = prog.functions[q]
        for s_ in cg.sites_in(f_):
            if "fcp.error.Logger.add_source" in s_.callees and s_.node.args and f_.module.name != "fcp.error":
                reg_kinds.add(key_kind(resolve_local_expr(f_, s_.node.args[0])))
    look_kinds = set()
    lg_ = prog.classes.get("fcp.error.Logger")
    for m_ in (lg_.methods.values() if lg_ else []):
        for n_ in walk_local(m_.node):
            if isinstance(n_, ast.Subscript) and isinstance(n_.ctx, ast.Load) and norm(n_.value) == "self.sources":
                look_kinds.add(key_kind(n_.slice))
    if None in reg_kinds or None in look_kinds or not reg_kinds or not look_kinds:
        rep.undecided("R11.4", "src/fcp/error.py", "fcp.error.Logger", "registration key / lookup key", "not in a recognised form (%s / %s)" % (sorted(str(k) for k in reg_kinds), sorted(str(k) for k in look_kinds)))
    elif reg_kinds == look_kinds == {"basename"}:
        rep.ok("R11.4", "src/fcp/error.py", "fcp.error.Logger", "sources registered and looked up by file base name", "the same function of the file on both sides")
    elif reg_kinds != look_kinds:
        rep.violation("R11.4", "src/fcp/error.py", "fcp.error.Logger", "registration key %s / lookup key %s" % (sorted(reg_kinds), sorted(look_kinds)), "sources are registered under one form of the file name and looked up under another: rendering raises KeyError")
    else:
        # both use the whole path: then every node's meta must carry exactly the registered spelling of the path;
        # a transformer rooted at a resolved()/absolute() path cites a different spelling than the one registered
        norm_sites = []
        for q in sorted(xf.reach):
            f_ = prog.functions[q]
            for c_ in walk_local(f_.node):
                if isinstance(c_, ast.Call) and isinstance(c_.func, ast.Attribute) and c_.func.attr in ("resolve", "absolute", "expanduser", "realpath") and f_.module.name.startswith("fcp.parser"):
                    norm_sites.append("%s: %s" % (f_.name, norm(c_, 50)))
        if norm_sites:
            rep.violation("R11.4", "src/fcp/error.py", "fcp.error.Logger", "sources keyed by whole path; path re-spelled at %s" % norm_sites[0],
                          "sources are registered and looked up by the whole path, but the parser re-spells paths (%s): a node of an imported module cites a path that was never registered (KeyError while rendering)" % "; ".join(norm_sites[:2]))
        else:
            rep.undecided("R11.4", "src/fcp/error.py", "fcp.error.Logger", "sources keyed by whole path", "agreement of path spellings not decided")
    # (c) nodes handed to error()/results_in() on the parse path carry .meta
    tok = prog.classes.get("fcp.parser.Token")
    for q in sorted(xf.reach):
        f = prog.functions[q]
        if not f.module.name.startswith("fcp.parser"):
            continue
        nodes = list(walk_local(f.node))
        for n in list(nodes):
            if isinstance(n, ast.Lambda):
                nodes += list(ast.walk(n.body))
        for n in nodes:
            if isinstance(n, ast.Call):
                cs = cg.site_of.get(id(n))
                if cs and (("fcp.error.error" in cs.callees) or ("fcp.error.FcpError.results_in" in cs.callees) or ("fcp.error.FcpError.__init__" in cs.callees)):
                    node_arg = n.args[1] if len(n.args) > 1 else None
                    for k in n.keywords:
                        if k.arg == "node":
                            node_arg = k.value
                    if node_arg is None:
                        continue
                    okn = isinstance(node_arg, ast.Call) and cg.site_of.get(id(node_arg)) and any(c.startswith("fcp.parser.Token.") for c in cg.site_of[id(node_arg)].callees)
                    if okn:
                        a0 = node_arg.args[0] if node_arg.args else None
                        if isinstance(a0, ast.Name):
                            a0 = resolve_local_expr(f, a0)
                        okm = isinstance(a0, ast.Call) and cg.site_of.get(id(a0)) and any(c in ("fcp.parser._get_meta", "fcp.specs.metadata.MetaData.__init__") for c in cg.site_of[id(a0)].callees)
                        if okm:
                            rep.ok("R11.4", f.file, f.qual, norm(node_arg, 90), "error node carries a MetaData")
                        elif isinstance(a0, ast.Attribute) and a0.attr == "meta":
                            rep.ok("R11.4", f.file, f.qual, norm(node_arg, 90), "error node carries the MetaData the parser stored on a schema node")
                        elif isinstance(a0, ast.Call):
                            rep.violation("R11.4", f.file, f.qual, norm(node_arg, 90), "error node's meta is not a MetaData built from a parse-tree node or a lark position")
                        else:
                            rep.undecided("R11.4", f.file, f.qual, norm(node_arg, 90), "origin of the error node's meta not recognised")
                    else:
                        rep.undecided("R11.4", f.file, f.qual, norm(node_arg, 90), "error node is not a Token(...) construction")


def resolve_local_expr(f: FuncInfo, e: ast.AST) -> ast.AST:
    from ..dataflow import resolve_local
    return resolve_local(e, Defs(f.node))


def shape(t: ast.AST, prog=None, f=None):
    """(number of components, number of components of the last one) of a tuple literal or of a named-tuple construction"""
    def parts(e):
        if isinstance(e, ast.Tuple):
            return list(e.elts)
        if isinstance(e, ast.Call) and prog is not None and f is not None:
            r = prog.resolve_expr_symbol(f.module, f, e.func)
            if r and r[0] == "class" and r[1] in prog.classes:
                ci = prog.classes[r[1]]
                if any(str(b).split(".")[-1] == "NamedTuple" for b in ci.bases) and ci.field_order:
                    out = [None] * len(ci.field_order)
                    for i, a in enumerate(e.args[:len(out)]):
                        out[i] = a
                    for k in e.keywords:
                        if k.arg in ci.field_order:
                            out[ci.field_order.index(k.arg)] = k.value
                    return out
        return None
    ps = parts(t)
    if ps is None:
        return (0, 0)
    lp = parts(ps[-1]) if ps and ps[-1] is not None else None
    return (len(ps), len(lp) if lp is not None else 0)


def r115(eng, rep, xf, UE, UC) -> None:
    prog, cg = eng.prog, eng.cg
    n = 0
    for q in sorted(xf.reach):
        f = prog.functions[q]
        for t in [x for x in walk_local(f.node) if isinstance(x, ast.Try)]:
            for h in t.handlers:
                if h.name is None:
                    continue
                covers_eof = any(xf.covers(ht, UE) for ht in xf.handler_types(f, h))
                if not covers_eof:
                    continue
                n += 1
                bad = []
                for c in ast.walk(ast.Module(body=h.body, type_ignores=[])):
                    if isinstance(c, ast.Call) and cg.site_of.get(id(c)) and "fcp.specs.metadata.MetaData.__init__" in cg.site_of[id(c)].callees:
                        if narrowed_to_chars(h, c, h.name):
                            continue
                        for a in list(c.args) + [k.value for k in c.keywords]:
                            for x in ast.walk(a):
                                if isinstance(x, ast.Attribute) and isinstance(x.value, ast.Name) and x.value.id == h.name and x.attr in ("line", "column", "pos_in_stream", "end_line", "end_column"):
                                    bad.append(norm(x))
                rep.check(not bad, "R11.5", f.file, f.qual, "except %s as %s" % (norm(h.type) if h.type else "", h.name),
                          "no -1 position reaches a MetaData", "handler also catches UnexpectedEOF, whose %s is -1, and puts it into a MetaData: the error cites a line that does not exist (Logger.error raises IndexError)" % ",".join(sorted(set(bad))))
    rep.extra["eof_handlers"] = n


def narrowed_to_chars(h: ast.ExceptHandler, call: ast.Call, name: str) -> bool:
    """call sits under `if isinstance(name, UnexpectedCharacters):` inside the handler."""
    def rec(stmts, ok):
        for st in stmts:
            if any(x is call for x in ast.walk(st)):
                if isinstance(st, ast.If):
                    t = norm(st.test)
                    pos = t.startswith("isinstance(%s, " % name) and "UnexpectedCharacters" in t and "EOF" not in t
                    if any(x is call for b in st.body for x in ast.walk(b)):
                        return rec(st.body, ok or pos)
                    return rec(st.orelse, ok)
                for fld in ("body", "orelse"):
                    sub = getattr(st, fld, None)
                    if isinstance(sub, list) and any(x is call for s in sub for x in ast.walk(s)):
                        return rec(sub, ok)
                return ok
        return ok
    return rec(h.body, False)
