"""C19 - the generated C message scheduler honours periods over every call history (narrow: conformance
of the control skeleton to the reference automaton).

S1 a test `timestamp == previous call's` returns before anything else; the previous-call variable is then
   set to the timestamp
S2 the send is control-dependent on exactly `period != -1 && time - last_send[idx] >= period`, with both
   subtraction operands uint32_t (wrap-around) and the comparison rejecting only "less"
S3 inside the guarded block the frame sent is the encoding of the same message's member of the device,
   and last_send[idx] = time follows the send with the same idx; nothing else writes the statics
J  template level: idx is loop.index0 of the enclosing message loop, the array length is messages|length,
   both period macros and the encode call name the loop's message
P  Python level: period <- the binding's 'period' field, default -1 (see also C06 R06.1)
"""

from __future__ import annotations

import ast
import os
import re
import shutil
import tempfile
from typing import Dict, List, Optional

from jinja2 import nodes as J

from ..front_py import AnalysisError, norm, walk_local, dotted
from ..front_jinja import JinjaBinding, JTemplate
from ..jinja_abstract import instantiate
from ..front_clang import c_ast, functions, body_of, params_of, walk as cwalk, parent_map as cparents, int_width

CT = "plugins/fcp_can_c/templates/can_device_c.jinja"
HT = "plugins/fcp_can_c/templates/can_device_h.jinja"
F = CT


def refs(n, name) -> bool:
    return any(y.kind == "DeclRefExpr" and y.get("referencedDecl", {}).get("name") == name for y in cwalk(n))


def slot_attribute(eng, rep, F, attr: str) -> None:
    """The slot of a message in the last-send table is an attribute computed by the Python writer: it must be different
    for different messages of a device."""
    found = False
    for f in eng.prog.functions.values():
        if not f.module.name.startswith("fcp_can_c"):
            continue
        for n in walk_local(f.node):
            if not (isinstance(n, ast.Assign) and len(n.targets) == 1 and isinstance(n.targets[0], ast.Attribute) and n.targets[0].attr == attr and isinstance(n.targets[0].value, ast.Name)):
                continue
            found = True
            obj = n.targets[0].value.id
            v = n.value
            site = "%s.%s = %s" % (obj, attr, norm(v, 60))
            loop = next((l for l in walk_local(f.node) if isinstance(l, ast.For) and any(x is n for x in ast.walk(l))), None)
            if loop is not None and isinstance(loop.iter, ast.Call) and dotted(loop.iter.func) == "enumerate" and isinstance(loop.target, ast.Tuple) and len(loop.target.elts) == 2 \
                    and isinstance(v, ast.Name) and isinstance(loop.target.elts[0], ast.Name) and v.id == loop.target.elts[0].id and norm(loop.target.elts[1]) == obj:
                rep.ok("J", f.file, f.qual, site, "slot = position of the message in its device's list")
                continue
            key = None
            if isinstance(v, ast.Call) and isinstance(v.func, ast.Attribute) and v.func.attr in ("setdefault", "get") and v.args:
                key = v.args[0]
            elif isinstance(v, ast.Subscript):
                key = v.slice
            if key is not None and isinstance(key, ast.Attribute) and isinstance(key.value, ast.Name) and key.value.id == obj:
                if key.attr in ("name", "name_snake", "name_pascal", "frame_id", "id"):
                    rep.undecided("J", f.file, f.qual, site, "slot keyed by the message's %s; injectivity of the table not decided" % key.attr)
                else:
                    rep.violation("J", f.file, f.qual, site, "the last-send slot of a message is keyed by its %s: two messages of a device with the same %s share one timestamp, so after the first is sent the second sees an elapsed time of 0 and is never sent" % (key.attr, key.attr))
            else:
                rep.undecided("J", f.file, f.qual, site, "how the slot is chosen is not in a recognised form")
    if not found:
        rep.undecided("J", F, "scheduler", "<last send>[{{message.%s}}]" % attr, "no assignment of the slot attribute found in the C writer")


def run(eng, rep) -> None:
    prog = eng.prog
    rep.explanation = (
        "The two device templates are instantiated abstractly (template text verbatim, every {{expr}} replaced by a placeholder, the message "
        "loop unrolled once with a symbolic index; never rendered) into one C unit that clang parses and types. On the typed AST of the "
        "scheduler function the reference automaton is checked as shape rules S1-S3; on the Jinja AST the slot index, array length and the "
        "message named by the period macros and the encode call are checked to be those of the enclosing message loop; on the Python side "
        "the period's provenance. A program satisfying these implements the automaton for every device and every call history."
    )
    rep.rule("S1", "early return when time equals the previous call's; previous-call variable updated")
    rep.rule("S2", "send guarded by period != -1 && (uint32) time - last_send[idx] >= period")
    rep.rule("S3", "frame = encode of the same message's member; last_send[idx] = time after the send; no other writes to the statics")
    rep.rule("J", "idx = loop.index0 of the message loop; array length = messages|length; macros/encode name the loop's message")
    rep.rule("P", "period <- binding field 'period', default -1")
    rep.rule("W1", "a hand-written distance across a counter wrap counts the step from the maximum to 0")
    from .lints import wraparound_off_by_one
    wraparound_off_by_one(eng, rep, "W1", ("plugins/fcp_can_c/templates",))
    rep.assume("C semantics of the encode function (C06); zero static initialisation; the global device is never scheduled")
    jb = JinjaBinding(eng)
    ct, ht = jb.template(CT), jb.template(HT)
    # ---- J: template level ---------------------------------------------------------
    # the message loop of the scheduler: the first {% for %} after the scheduler function's header
    hdr_line = None
    for ln_no, line in enumerate(ct.source.splitlines(), 1):
        if re.search(r"can_send_.*_msgs_scheduled\s*\(", line):
            hdr_line = ln_no
            break
    if hdr_line is None:
        raise AnalysisError("anchor vanished: scheduler function can_send_*_msgs_scheduled in can_device_c.jinja")
    sched_loop = None
    for lp in sorted(ct.loops(), key=lambda l: l.lineno):
        if lp.lineno >= hdr_line and sched_loop is None:
            sched_loop = lp
    if sched_loop is None:
        rep.undecided("J", F, "scheduler", "message loop", "no {% for %} found in the scheduler function")
        mvar, iter_src = None, None
    else:
        mvar, iter_src = sched_loop.target, sched_loop.iter_src
        if iter_src == "messages":
            rep.ok("J", F, "scheduler", "for %s in %s" % (mvar, iter_src), "every message of the device, in order")
        elif re.fullmatch(r"\w+", iter_src or ""):
            rep.undecided("J", F, "scheduler", "for %s in %s" % (mvar, iter_src), "the loop iterates another variable than the device's message list")
        else:
            rep.violation("J", F, "scheduler", "for %s in %s" % (mvar, iter_src), "the scheduler does not iterate the device's message list itself (a filtered/re-ordered list breaks the slot index)")
    # header: the period macro is the message's period
    pm = re.search(r"#define CAN_MSG_PERIOD_\{\{\s*(.*?)\s*\}\}\s+\{\{\s*(.*?)\s*\}\}", ht.source)
    if pm:
        rep.check(pm.group(2).strip().endswith(".period") and pm.group(1).split(".")[0] == pm.group(2).split(".")[0], "J", HT, "header", "#define CAN_MSG_PERIOD_{{m}} {{m.period}}", "macro value is that message's period", "the period macro is not defined as the same message's period")
    else:
        rep.undecided("J", HT, "header", "#define CAN_MSG_PERIOD_{{m}} {{m.period}}", "definition of the period macro not found in the recognised form")
    # ---- P ---------------------------------------------------------------------------
    from ..dataflow import Defs, resolve_local
    PF = "plugins/fcp_can_c/fcp_can_c/can_c_writer.py"
    n_p = 0
    for f in prog.functions.values():
        if f.module.name != "fcp_can_c.can_c_writer":
            continue
        for n in walk_local(f.node):
            if isinstance(n, ast.Call) and (norm(n.func).split(".")[-1] == "CanMessage"):
                pv = next((k.value for k in n.keywords if k.arg == "period"), None)
                if pv is None:
                    continue
                n_p += 1
                v = resolve_local(pv, Defs(f.node))
                t = norm(v, 120)
                if re.search(r"\.fields\.get\('period', -1\)$", t):
                    rep.ok("P", PF, f.qual, "period = <binding>.fields.get('period', -1)", "messages without a period get -1 (never sent)")
                elif re.search(r"\.fields\.get\('period'(, [^)]*)?\)$", t) or re.search(r"\.fields\['period'\]$", t):
                    rep.violation("P", PF, f.qual, "period = %s" % t[-60:], "period is not the binding's 'period' field with default -1")
                elif "period" not in t:
                    rep.violation("P", PF, f.qual, "period = %s" % t[-60:], "period is not the binding's 'period' field with default -1")
                else:
                    # read from a dict that is shared between loop iterations and updated in the loop?
                    carried = None
                    if isinstance(v, ast.Subscript) and isinstance(v.value, ast.Name):
                        base = v.value.id
                        names = {base}
                        cur_, d_ = v.value, Defs(f.node)
                        for _ in range(4):
                            vs_ = d_.values(cur_.id) if isinstance(cur_, ast.Name) else []
                            if len(vs_) == 1 and isinstance(vs_[0][1], ast.Name):
                                cur_ = vs_[0][1]
                                names.add(cur_.id)
                            else:
                                break
                        loops = [l for l in walk_local(f.node) if isinstance(l, ast.For) and any(x is n for x in ast.walk(l))]
                        for l in loops:
                            muts = [c for c in ast.walk(l) if isinstance(c, ast.Call) and isinstance(c.func, ast.Attribute) and c.func.attr in ("update", "setdefault", "__setitem__", "pop", "clear") and isinstance(c.func.value, ast.Name) and c.func.value.id in names]
                            defined_outside = any(not any(st is x for x in ast.walk(l)) for nm in names for k_, v_, st in Defs(f.node).values(nm) if isinstance(v_, (ast.Dict, ast.Call)))
                            if muts and defined_outside:
                                carried = norm(muts[0], 50)
                    if carried:
                        rep.violation("P", PF, f.qual, "period = %s" % t[-60:], "the period is read from a dict that is created once and updated in every iteration (%s): a binding without a period inherits the period of an earlier binding" % carried)
                    else:
                        rep.undecided("P", PF, f.qual, "period = %s" % t[-60:], "provenance of the period not in a recognised form")
    if n_p == 0:
        rep.undecided("P", PF, "-", "CanMessage(period=...)", "no construction of a message with a period found")
    # ---- typed AST of the abstract instantiation ---------------------------------------
    tdir = eng.path("plugins", "fcp_can_c", "templates")
    tmp = tempfile.mkdtemp(prefix="fcpverif-c19-")
    try:
        csrc = instantiate(ct)
        hsrc = instantiate(ht)
        m = re.search(r'#include "(\w+_can\.h)"', csrc)
        hname = m.group(1) if m else "J_device_name_snake_can.h"
        pre = "#ifndef J_PLACEHOLDERS\n#define J_PLACEHOLDERS\nenum { J_IDX = 0, J_NMSG = 1, J_PERIOD = 10 };\n#endif\n"
        pre0 = pre
        with open(os.path.join(tmp, hname), "w") as fh:
            fh.write(pre + hsrc)
        with open(os.path.join(tmp, "dev.c"), "w") as fc:
            fc.write(pre + csrc)
        rep.extra["abstract_instance_chars"] = len(csrc) + len(hsrc)
        from ..front_clang import c_errors
        errs = c_errors(os.path.join(tmp, "dev.c"), [tmp, tdir])
        # placeholders of template variables the checker has no role for: declare them as opaque ints
        for _ in range(8):
            und = sorted({m2.group(1) for e_ in errs for m2 in [re.search(r"undeclared identifier '(J_\w+)'", e_)] if m2})
            if not und:
                break
            extra_decl = locals().get("extra_decl", "") + "".join("enum { %s = 1 };\n" % u for u in und)
            pre = pre0 + "#ifndef J_EXTRA_PLACEHOLDERS\n#define J_EXTRA_PLACEHOLDERS\n" + extra_decl + "#endif\n"
            with open(os.path.join(tmp, hname), "w") as fh:
                fh.write(pre + hsrc)
            with open(os.path.join(tmp, "dev.c"), "w") as fc:
                fc.write(pre + csrc)
            errs = c_errors(os.path.join(tmp, "dev.c"), [tmp, tdir])
        if errs:
            rep.undecided("S1", F, "scheduler", "abstract instantiation", "the abstract instance does not type-check, typed rules S1-S3 not decided: %s" % errs[0][-160:])
            return
        try:
            tu = c_ast(os.path.join(tmp, "dev.c"), [tmp, tdir])
        except AnalysisError as e:
            rep.undecided("S1", F, "scheduler", "abstract instantiation", "clang cannot parse the abstract instance: %s" % str(e)[:200])
            return
    finally:
        shutil.rmtree(tmp, ignore_errors=True)
    fns = functions(tu)
    sched = [d for k, ds in fns.items() if k.startswith("can_send_") and k.endswith("_msgs_scheduled") for d in ds if body_of(d) is not None]
    if not sched:
        rep.undecided("S1", F, "scheduler", "scheduler function", "not found in the abstract instance (errors while parsing?)")
        return
    fn = sched[0]
    body = body_of(fn)
    ps = {p.get("name"): p for p in params_of(fn)}
    # roles by type, not by name
    tparam = next((n for n, p in ps.items() if p.qtype == "uint32_t"), None)
    SEND = next((n for n, p in ps.items() if "(*)" in p.qtype), None)
    dev = next((n for n, p in ps.items() if "CanDevice" in p.qtype), None)
    rep.check(tparam is not None, "S2", F, "scheduler", "timestamp parameter uint32_t", "32-bit wrapping time", "the scheduler's timestamp is not uint32_t")
    stmts = body.inner
    statics = {}
    for st in stmts:
        if st.kind == "DeclStmt":
            for vd in st.inner:
                if vd.kind == "VarDecl" and vd.get("storageClass") == "static":
                    statics[vd.get("name")] = vd
    prev = next((n for n, vd in statics.items() if vd.qtype == "uint32_t"), None)
    arr = next((n for n, vd in statics.items() if "[" in vd.qtype), None)
    rep.check(prev is not None and arr is not None and statics[arr].qtype.startswith("uint32_t"), "S1", F, "scheduler", "static uint32_t <previous call>; static uint32_t <last send>[]", "state = previous call time + per-message last send time (uint32_t)", "scheduler state is not (uint32_t previous call, uint32_t last-send array)")
    if prev is None or arr is None or tparam is None:
        return
    # J (instance level): one slot per message
    m_len = re.search(r"static\s+uint32_t\s+%s\s*\[\s*(\w+)\s*\]" % re.escape(arr), csrc)
    if m_len and m_len.group(1) == "J_NMSG":
        rep.ok("J", F, "scheduler", "static uint32_t <last send>[{{messages | length}}]", "one slot per message")
    elif m_len and re.fullmatch(r"\d+", m_len.group(1)):
        rep.violation("J", F, "scheduler", "static uint32_t <last send>[%s]" % m_len.group(1), "the last-send array does not have one slot per message of the device")
    else:
        rep.undecided("J", F, "scheduler", "length of the last-send array", "not in a recognised form")

    def strip(n):
        while n is not None and n.kind in ("ImplicitCastExpr", "ParenExpr") and n.inner:
            n = n.inner[0]
        return n

    def is_ret(n):
        return n is not None and (n.kind == "ReturnStmt" or (n.kind == "CompoundStmt" and len(n.inner) == 1 and n.inner[0].kind == "ReturnStmt"))

    def cmp_prev_time(c):
        """-> opcode when c is `prev <op> time` / `time <op> prev` (plain comparison of the two), else None"""
        c = strip(c)
        if c is not None and c.kind == "BinaryOperator" and c.get("opcode") in ("==", "!=", "<", ">", "<=", ">="):
            a, b = strip(c.inner[0]), strip(c.inner[1])
            names = {x.get("referencedDecl", {}).get("name") for x in (a, b) if x is not None and x.kind == "DeclRefExpr"}
            if names == {prev, tparam}:
                return c.get("opcode")
        return None

    non_decl = [st for st in stmts if st.kind not in ("DeclStmt", "NullStmt")]
    # ---- S1: a repeated timestamp does nothing; the previous-call variable is updated --------------
    s1 = non_decl[0] if non_decl else None
    region = None  # statements executed when the timestamp is new
    if s1 is not None and s1.kind == "IfStmt":
        op = cmp_prev_time(s1.inner[0])
        if op == "==" and len(s1.inner) == 2 and is_ret(s1.inner[1]):
            rep.ok("S1", F, "scheduler", "if (<previous call> == <time>) return;  (first statement)", "a repeated timestamp sends nothing")
            region = non_decl[1:]
        elif op == "!=" and len(s1.inner) == 2 and all(is_ret(x) or x.kind == "NullStmt" for x in non_decl[1:]):
            rep.ok("S1", F, "scheduler", "if (<previous call> != <time>) { ... }  (whole body)", "a repeated timestamp sends nothing")
            region = [x for x in (s1.inner[1].inner if s1.inner[1].kind == "CompoundStmt" else [s1.inner[1]]) if x.kind not in ("NullStmt",)]
        elif refs(s1.inner[0], prev) and refs(s1.inner[0], tparam) and any(x.kind == "ReturnStmt" for x in cwalk(s1.inner[1])):
            rep.violation("S1", F, "scheduler", "if (<previous call> == <time>) return; (first statement)", "the scheduler does not start with exactly `if (time == previous call) return;`: with any other early-return condition a call at a new timestamp can be swallowed (a message that is due is not sent) or a repeated timestamp sends twice")
            return
    if region is None:
        compares = [x for x in cwalk(body) if x.kind == "BinaryOperator" and x.get("opcode") in ("==", "!=") and refs(x, prev) and refs(x, tparam)]
        if s1 is not None and not compares:
            rep.violation("S1", F, "scheduler", "if (<previous call> == <time>) return; (first statement)", "the scheduler never compares the timestamp with the previous call's: a repeated timestamp sends again")
        else:
            rep.undecided("S1", F, "scheduler", "repeated-timestamp guard", "the function does not start with a recognised form of the guard")
        return
    upd = [x for x in region if x.kind == "BinaryOperator" and x.get("opcode") == "=" and strip(x.inner[0]) is not None and strip(x.inner[0]).kind == "DeclRefExpr" and strip(x.inner[0]).get("referencedDecl", {}).get("name") == prev]
    if upd and region and upd[0] is region[0] and refs(upd[0].inner[1], tparam) and strip(upd[0].inner[1]).kind == "DeclRefExpr":
        rep.ok("S1", F, "scheduler", "<previous call> = <time>;", "previous-call time updated before the message blocks")
    elif upd and refs(upd[0].inner[1], tparam) and strip(upd[0].inner[1]).kind == "DeclRefExpr":
        rep.undecided("S1", F, "scheduler", "<previous call> = <time>;", "updated, but not right after the guard")
    else:
        rep.violation("S1", F, "scheduler", "<previous call> = <time>;", "the previous-call time is not updated right after the early-return test")
    rest = [x for x in region if x not in upd]

    # ---- message blocks -------------------------------------------------------------------------
    def block_of(st):
        """-> (locals of the block, the IfStmt) for `if (...) {...}` or `{ const T e = ...; if (...) {...} }`"""
        if st.kind == "IfStmt":
            return {}, st
        if st.kind == "CompoundStmt":
            loc, ifs, other = {}, [], []
            for x in st.inner:
                if x.kind == "DeclStmt":
                    for vd in x.inner:
                        if vd.kind == "VarDecl" and vd.inner:
                            loc[vd.get("name")] = vd
                elif x.kind == "IfStmt":
                    ifs.append(x)
                elif x.kind != "NullStmt":
                    other.append(x)
            if len(ifs) == 1 and not other:
                return loc, ifs[0]
        return None, None

    blocks, others = [], []
    for st in rest:
        loc, ifst = block_of(st)
        if ifst is not None and (refs(ifst.inner[0], arr) or any(refs(vd, arr) for vd in (loc or {}).values()) or any(x.kind == "CallExpr" for x in cwalk(ifst))):
            blocks.append((loc, ifst))
        elif not is_ret(st):
            others.append(st)
    if not blocks:
        rep.undecided("S2", F, "scheduler", "per-message blocks", "no guarded message block recognised in the abstract instance")
        return
    if others:
        sends_outside = [o for o in others if SEND and refs(o, SEND)]
        if sends_outside:
            rep.violation("S3", F, "scheduler", "only guarded message blocks follow", "statements outside the per-message guards: %s" % [o.kind for o in others][:3])
        else:
            rep.undecided("S3", F, "scheduler", "statements outside the per-message guards", "%s" % [o.kind for o in others][:3])
    else:
        rep.ok("S3", F, "scheduler", "only guarded message blocks follow", "nothing is sent outside a period guard")

    def unlocal(n, loc):
        """follow a reference to a block-local const back to its initialiser"""
        n0 = strip(n)
        if n0 is not None and n0.kind == "DeclRefExpr" and n0.get("referencedDecl", {}).get("name") in loc:
            vd = loc[n0.get("referencedDecl", {}).get("name")]
            return vd.inner[-1], vd
        return n, None

    for loc, b in blocks:
        cond = strip(b.inner[0])
        if not (cond.kind == "BinaryOperator" and cond.get("opcode") == "&&"):
            rep.violation("S2", F, "scheduler", "guard of the send", "the send is not guarded by `period != -1 && elapsed >= period`")
            continue
        l, r = cond.inner
        ne = [x for x in cwalk(l) if x.kind == "BinaryOperator" and x.get("opcode") == "!="]
        minus1 = any(x.kind == "UnaryOperator" and x.get("opcode") == "-" and any(y.kind == "IntegerLiteral" and y.get("value") == "1" for y in cwalk(x)) for x in cwalk(l))
        rep.check(bool(ne) and minus1, "S2", F, "scheduler", "period != -1", "messages without a period are never sent", "the guard does not exclude messages without a period (-1)")
        ge = [x for x in cwalk(r) if x.kind == "BinaryOperator" and x.get("opcode") in (">=", ">", "<", "<=", "==")]
        if not ge:
            rep.violation("S2", F, "scheduler", "elapsed-time test", "no comparison of the elapsed time with the period")
            continue
        g = ge[0]
        rep.check(g.get("opcode") == ">=", "S2", F, "scheduler", "elapsed %s period" % g.get("opcode"), "sent as soon as exactly one period has elapsed", "the elapsed-time comparison is `%s`, it must be `>=` (reject only 'less')" % g.get("opcode"))
        lhs_expr, via = unlocal(g.inner[0], loc)
        if via is not None and via.qtype.replace("const ", "") != "uint32_t":
            rep.violation("S2", F, "scheduler", "elapsed time kept in a %s" % via.qtype, "the uint32_t difference is converted (e.g. to a signed or wider type) before it is compared with the period: wrap-around / long gaps are misjudged")
            continue
        lhs0 = lhs_expr
        while lhs0.kind in ("ParenExpr", "ImplicitCastExpr"):
            if lhs0.kind == "ImplicitCastExpr" and lhs0.get("castKind") == "IntegralCast" and "unsigned" not in (lhs0.desugared or lhs0.qtype) and lhs0.qtype != "uint32_t":
                break
            lhs0 = lhs0.inner[0]
        sub = [lhs0] if lhs0.kind == "BinaryOperator" and lhs0.get("opcode") == "-" else []
        if not sub and any(x.kind == "BinaryOperator" and x.get("opcode") == "-" for x in cwalk(lhs_expr)):
            rep.violation("S2", F, "scheduler", "elapsed time converted before the comparison (%s)" % lhs0.kind, "the uint32_t difference is converted (e.g. to a signed type) before it is compared with the period: wrap-around / long gaps are misjudged")
            continue
        oks = False
        idx_test = None
        if sub:
            a0, b0 = strip(sub[0].inner[0]), strip(sub[0].inner[1])
            oks = a0.kind == "DeclRefExpr" and a0.get("referencedDecl", {}).get("name") == tparam and b0.kind == "ArraySubscriptExpr" and refs(b0, arr) and ((int_width(sub[0].qtype) == 32 and "unsigned" in (sub[0].desugared or sub[0].qtype or "unsigned")) or sub[0].qtype == "uint32_t")
            if b0.kind == "ArraySubscriptExpr":
                idx_test = [y.get("referencedDecl", {}).get("name") or y.get("value") for y in cwalk(b0.inner[1]) if y.kind in ("IntegerLiteral", "DeclRefExpr")]
        rep.check(bool(oks), "S2", F, "scheduler", "<time> - <last send>[idx] as uint32_t", "wrap-around-safe elapsed time", "elapsed time is not computed as uint32_t `time - last_send[idx]` (wrap-around breaks, or the operands are swapped)")
        # S3
        then = b.inner[1]
        tstm = then.inner if then.kind == "CompoundStmt" else [then]
        send_i = next((i for i, s_ in enumerate(tstm) if s_.kind == "CallExpr" and SEND and refs(s_.inner[0], SEND)), None)
        upd_i = next((i for i, s_ in enumerate(tstm) if s_.kind == "BinaryOperator" and s_.get("opcode") == "=" and any(y.kind == "ArraySubscriptExpr" and refs(y, arr) for y in cwalk(s_.inner[0])) and refs(s_.inner[1], tparam) and strip(s_.inner[1]).kind == "DeclRefExpr"), None)
        enc_i = next((i for i, s_ in enumerate(tstm) if s_.kind == "DeclStmt" and any(x.kind == "CallExpr" for x in cwalk(s_))), None)
        rep.check(send_i is not None and enc_i is not None and enc_i < send_i, "S3", F, "scheduler", "CanFrame frame = can_encode_msg_x(&dev->x); <send>(&frame);", "the frame sent is the one just encoded", "the guarded block does not encode then send one frame")
        if send_i is not None and enc_i is not None:
            fv = [vd.get("name") for vd in tstm[enc_i].inner if vd.kind == "VarDecl"]
            rep.check(bool(fv) and refs(tstm[send_i], fv[0]), "S3", F, "scheduler", "<send>(&%s)" % (fv[0] if fv else "?"), "sends the encoded frame", "the frame handed to the send function is not the one encoded in this block")
            rep.check(dev is not None and refs(tstm[enc_i], dev), "S3", F, "scheduler", "encode(&<device>->member)", "current value of the device's message", "the encoded value is not taken from the device argument")
            # J (instance level): the encode call and the member are the loop message's
            callee = [y.get("referencedDecl", {}).get("name") for y in cwalk(tstm[enc_i]) if y.kind == "DeclRefExpr" and str(y.get("referencedDecl", {}).get("name", "")).startswith("can_encode_msg_")]
            member = [y.get("name") for y in cwalk(tstm[enc_i]) if y.kind == "MemberExpr"]
            if mvar and callee and member:
                want = "J_%s_name_snake" % mvar
                rep.check(callee[0] == "can_encode_msg_" + want and member[0] == want, "J", F, "scheduler", "can_encode_msg_{{m}}(&dev->{{m}})", "encodes the loop message's own member", "the frame sent is not the encoding of the loop message's own member of the device")
            else:
                rep.undecided("J", F, "scheduler", "can_encode_msg_{{m}}(&dev->{{m}})", "encode call not in the recognised form")
        rep.check(upd_i is not None and send_i is not None and upd_i > send_i, "S3", F, "scheduler", "<last send>[idx] = <time>; after the send", "last-send time recorded for this message", "the last-send time is not updated (to the current timestamp) after the send: the message is re-sent on every call or never again")
        if upd_i is not None:
            lhs = tstm[upd_i].inner[0]
            idx_upd = [y.get("referencedDecl", {}).get("name") or y.get("value") for y in cwalk(lhs) if (y.kind == "IntegerLiteral") or (y.kind == "DeclRefExpr" and y.get("referencedDecl", {}).get("name") != arr)]
            rep.check(idx_upd == idx_test, "S3", F, "scheduler", "slot in update == slot in test (%s / %s)" % (idx_upd, idx_test), "same slot", "the slot updated is not the slot tested")
            if idx_test is not None:
                attr_slot = idx_test[0][len("J_%s_" % mvar):] if mvar and len(idx_test) == 1 and str(idx_test[0]).startswith("J_%s_" % mvar) else None
                if attr_slot:
                    slot_attribute(eng, rep, F, attr_slot)
                else:
                    rep.check(idx_test == ["J_IDX"], "J", F, "scheduler", "<last send>[{{loop.index0}}]", "slot = position of the message in the loop", "the last-send slot is not loop.index0 of the message loop (messages share or miss slots)")
        extra_writes = [s_ for i2, s_ in enumerate(tstm) if i2 != upd_i and s_.kind in ("BinaryOperator", "CompoundAssignOperator") and s_.get("opcode", "=").endswith("=") and s_.get("opcode") not in ("==", "!=", "<=", ">=") and (refs(s_.inner[0], arr) or refs(s_.inner[0], prev))]
        rep.check(not extra_writes, "S3", F, "scheduler", "no other write to the scheduler state in the block", "state changes only by the update", "the guarded block writes the scheduler state in another place")
    # J (instance level): both period macros of a block name the loop's message
    fn_text = csrc[csrc.find("_msgs_scheduled("):]
    periods = re.findall(r"CAN_MSG_PERIOD_(\w+)", fn_text)
    if mvar and len(periods) >= 2:
        want = "J_%s_name_snake_upper" % mvar
        rep.check(len(set(periods)) == 1 and periods[0] == want, "J", F, "scheduler", "CAN_MSG_PERIOD_{{%s.name_snake | upper}} x%d" % (mvar, len(periods)), "both period macros are the loop message's", "the period macros in the guard do not both name the loop's message (%s)" % sorted(set(periods)))
    else:
        rep.undecided("J", F, "scheduler", "CAN_MSG_PERIOD_{{m}}", "period macros not found in the recognised form")
