"""C19 - the generated C message scheduler honours periods over every call history (narrow: conformance
of the control skeleton to the reference automaton).

S1 a test `timestamp == previous call's` returns before anything else; the previous-call variable is then
   set to the timestamp
S2 the send is control-dependent on exactly `period != -1 && time - last_send[idx] >= period`, with both
   subtraction operands uint32_t (wrap-around) and the comparison rejecting only "less"
S3 inside the guarded block the frame sent is the encoding of the same message's member of the device,
   and last_send[idx] = time follows the send with the same idx; nothing else writes the statics
J  template level: idx is loop.index0 of the enclosing message loop, the array length is messages|length,
   both period macros and the encode call name the loop's message
P  Python level: period <- the binding's 'period' field, default -1 (see also C06 R06.1)
"""

from __future__ import annotations

import ast
import os
import re
import shutil
import tempfile
from typing import Dict, List, Optional

from jinja2 import nodes as J

from ..front_py import AnalysisError, norm, walk_local
from ..front_jinja import JinjaBinding, JTemplate
from ..jinja_abstract import instantiate
from ..front_clang import c_ast, functions, body_of, params_of, walk as cwalk, parent_map as cparents, int_width

CT = "plugins/fcp_can_c/templates/can_device_c.jinja"
HT = "plugins/fcp_can_c/templates/can_device_h.jinja"
F = CT


def refs(n, name) -> bool:
    return any(y.kind == "DeclRefExpr" and y.get("referencedDecl", {}).get("name") == name for y in cwalk(n))


def run(eng, rep) -> None:
    prog = eng.prog
    rep.explanation = (
        "The two device templates are instantiated abstractly (template text verbatim, every {{expr}} replaced by a placeholder, the message "
        "loop unrolled once with a symbolic index; never rendered) into one C unit that clang parses and types. On the typed AST of the "
        "scheduler function the reference automaton is checked as shape rules S1-S3; on the Jinja AST the slot index, array length and the "
        "message named by the period macros and the encode call are checked to be those of the enclosing message loop; on the Python side "
        "the period's provenance. A program satisfying these implements the automaton for every device and every call history."
    )
    rep.rule("S1", "early return when time equals the previous call's; previous-call variable updated")
    rep.rule("S2", "send guarded by period != -1 && (uint32) time - last_send[idx] >= period")
    rep.rule("S3", "frame = encode of the same message's member; last_send[idx] = time after the send; no other writes to the statics")
    rep.rule("J", "idx = loop.index0 of the message loop; array length = messages|length; macros/encode name the loop's message")
    rep.rule("P", "period <- binding field 'period', default -1")
    rep.assume("C semantics of the encode function (C06); zero static initialisation; the global device is never scheduled")
    jb = JinjaBinding(eng)
    ct, ht = jb.template(CT), jb.template(HT)
    # ---- J: template level ---------------------------------------------------------
    sched_loop = None
    for lp in ct.loops():
        if "last_send_t[" in lp.body_text and "send_can_func" in lp.body_text:
            sched_loop = lp
    if sched_loop is None:
        raise AnalysisError("anchor vanished: scheduler loop in can_device_c.jinja")
    rep.check(sched_loop.iter_src == "messages", "J", F, "scheduler", "for %s in %s" % (sched_loop.target, sched_loop.iter_src), "every message of the device, in order", "the scheduler does not iterate the device's message list itself (a filtered/re-ordered list breaks the slot index)")
    mvar = sched_loop.target
    seq = ct.output_sequence(sched_loop.node.body)
    text = "".join(d if k == "data" else "\x00%s\x00" % JTemplate.src(d) for k, d in seq)
    idx = re.findall(r"last_send_t\[\x00(.*?)\x00\]", text)
    rep.check(len(idx) == 2 and all(i.strip() == "loop.index0" for i in idx), "J", F, "scheduler", "last_send_t[%s]" % ", ".join(idx), "slot = position of the message in the loop, same in test and update", "the last-send slot is not loop.index0 in both the test and the update (messages share or miss slots)")
    periods = re.findall(r"CAN_MSG_PERIOD_\x00(.*?)\x00", text)
    rep.check(len(periods) >= 2 and len(set(periods)) == 1 and periods[0].replace(" ", "").startswith("%s.name_snake" % mvar), "J", F, "scheduler", "CAN_MSG_PERIOD_{{%s}} x%d" % (periods[0] if periods else "?", len(periods)), "both period macros are the loop message's", "the two period macros in the guard do not both name the loop's message")
    enc = re.findall(r"can_encode_msg_\x00(.*?)\x00\(&dev->\x00(.*?)\x00\)", text)
    rep.check(len(enc) == 1 and enc[0][0].strip() == "%s.name_snake" % mvar and enc[0][1].strip() == "%s.name_snake" % mvar, "J", F, "scheduler", "can_encode_msg_{{m}}(&dev->{{m}})", "encodes the loop message's own member", "the frame sent is not the encoding of the loop message's own member of the device")
    alen = re.search(r"last_send_t\[\{\{\s*(.*?)\s*\}\}\]\s*=\s*\{0\}", ct.source)
    rep.check(bool(alen) and alen.group(1).replace(" ", "") == "messages|length", "J", F, "scheduler", "static uint32_t last_send_t[{{%s}}]" % (alen.group(1) if alen else "?"), "one slot per message", "the last-send array does not have one slot per message of the device")
    # header: the period macro is the message's period
    pm = re.search(r"#define CAN_MSG_PERIOD_\{\{\s*(.*?)\s*\}\}\s+\{\{\s*(.*?)\s*\}\}", ht.source)
    rep.check(bool(pm) and pm.group(2).strip().endswith(".period") and pm.group(1).split(".")[0] == pm.group(2).split(".")[0], "J", HT, "header", "#define CAN_MSG_PERIOD_{{m}} {{m.period}}", "macro value is that message's period", "the period macro is not defined as the same message's period")
    # ---- P ---------------------------------------------------------------------------
    init = prog.functions.get("fcp_can_c.can_c_writer.initialize_can_data")
    okp = False
    if init is not None:
        for n in walk_local(init.node):
            if isinstance(n, ast.Assign) and isinstance(n.targets[0], ast.Name) and n.targets[0].id == "period":
                okp = norm(n.value).endswith(".fields.get('period', -1)")
    rep.check(okp, "P", "plugins/fcp_can_c/fcp_can_c/can_c_writer.py", "fcp_can_c.can_c_writer.initialize_can_data", "period = <binding>.fields.get('period', -1)", "messages without a period get -1 (never sent)", "period is not the binding's 'period' field with default -1")
    # ---- typed AST of the abstract instantiation ---------------------------------------
    tdir = eng.path("plugins", "fcp_can_c", "templates")
    tmp = tempfile.mkdtemp(prefix="fcpverif-c19-")
    try:
        csrc = instantiate(ct)
        hsrc = instantiate(ht)
        m = re.search(r'#include "(\w+_can\.h)"', csrc)
        hname = m.group(1) if m else "J_device_name_snake_can.h"
        pre = "#define J_IDX 0\n#define J_NMSG 1\n#define J_PERIOD 10\n"
        with open(os.path.join(tmp, hname), "w") as fh:
            fh.write(pre + hsrc)
        with open(os.path.join(tmp, "dev.c"), "w") as fc:
            fc.write(pre + csrc)
        rep.extra["abstract_instance_chars"] = len(csrc) + len(hsrc)
        from ..front_clang import c_errors
        errs = c_errors(os.path.join(tmp, "dev.c"), [tmp, tdir])
        # placeholders of template variables the checker has no role for: declare them as opaque ints
        for _ in range(8):
            und = sorted({m2.group(1) for e_ in errs for m2 in [re.search(r"undeclared identifier '(J_\w+)'", e_)] if m2})
            if not und:
                break
            pre += "".join("extern const int %s;\n" % u for u in und)
            with open(os.path.join(tmp, hname), "w") as fh:
                fh.write(pre + hsrc)
            with open(os.path.join(tmp, "dev.c"), "w") as fc:
                fc.write(pre + csrc)
            errs = c_errors(os.path.join(tmp, "dev.c"), [tmp, tdir])
        if errs:
            rep.undecided("S1", F, "scheduler", "abstract instantiation", "the abstract instance does not type-check, typed rules S1-S3 not decided: %s" % errs[0][-160:])
            return
        try:
            tu = c_ast(os.path.join(tmp, "dev.c"), [tmp, tdir])
        except AnalysisError as e:
            rep.undecided("S1", F, "scheduler", "abstract instantiation", "clang cannot parse the abstract instance: %s" % str(e)[:200])
            return
    finally:
        shutil.rmtree(tmp, ignore_errors=True)
    fns = functions(tu)
    sched = [d for k, ds in fns.items() if k.startswith("can_send_") and k.endswith("_msgs_scheduled") for d in ds if body_of(d) is not None]
    if not sched:
        rep.undecided("S1", F, "scheduler", "scheduler function", "not found in the abstract instance (errors while parsing?)")
        return
    fn = sched[0]
    body = body_of(fn)
    ps = {p.get("name"): p for p in params_of(fn)}
    tparam = next((n for n, p in ps.items() if p.qtype == "uint32_t"), None)
    rep.check(tparam is not None, "S2", F, "scheduler", "timestamp parameter uint32_t", "32-bit wrapping time", "the scheduler's timestamp is not uint32_t")
    stmts = body.inner
    statics = {}
    for st in stmts:
        if st.kind == "DeclStmt":
            for vd in st.inner:
                if vd.kind == "VarDecl" and vd.get("storageClass") == "static":
                    statics[vd.get("name")] = vd
    prev = next((n for n, vd in statics.items() if vd.qtype == "uint32_t"), None)
    arr = next((n for n, vd in statics.items() if "[" in vd.qtype), None)
    rep.check(prev is not None and arr is not None and statics[arr].qtype.startswith("uint32_t"), "S1", F, "scheduler", "static uint32_t %s; static uint32_t %s[]" % (prev, arr), "state = previous call time + per-message last send time (uint32_t)", "scheduler state is not (uint32_t previous call, uint32_t last-send array)")
    if prev is None or arr is None or tparam is None:
        return
    non_decl = [st for st in stmts if st.kind != "DeclStmt"]
    # S1
    s1 = non_decl[0] if non_decl else None
    ok1 = s1 is not None and s1.kind == "IfStmt" and any(x.kind == "BinaryOperator" and x.get("opcode") == "==" and refs(x, prev) and refs(x, tparam) for x in cwalk(s1.inner[0])) and any(x.kind == "ReturnStmt" for x in cwalk(s1.inner[1])) and len(s1.inner) == 2
    rep.check(ok1, "S1", F, "scheduler", "if (%s == %s) return;  (first statement)" % (prev, tparam), "a repeated timestamp sends nothing", "the scheduler does not start with exactly `if (time == previous call) return;`: with any other early-return condition a call at a new timestamp can be swallowed (a message that is due is not sent) or a repeated timestamp sends twice")
    s1b = non_decl[1] if len(non_decl) > 1 else None
    ok1b = s1b is not None and s1b.kind == "BinaryOperator" and s1b.get("opcode") == "=" and refs(s1b.inner[0], prev) and refs(s1b.inner[1], tparam)
    rep.check(ok1b, "S1", F, "scheduler", "%s = %s;" % (prev, tparam), "previous-call time updated before the message blocks", "the previous-call time is not updated right after the early-return test")
    # S2 / S3 per message block
    blocks = [st for st in non_decl if st.kind == "IfStmt" and st is not s1 and (refs(st.inner[0], arr) or any(x.kind == "CallExpr" for x in cwalk(st)))]
    rep.floor("S2", "message blocks in the abstract instance", len(blocks), 1)
    others = [st for st in non_decl if st not in blocks and st is not s1 and st is not s1b and st.kind != "NullStmt"]
    rep.check(not others, "S3", F, "scheduler", "only guarded message blocks follow", "nothing is sent outside a period guard", "statements outside the per-message guards: %s" % [o.kind for o in others][:3])
    for b in blocks:
        cond = b.inner[0]
        while cond.kind in ("ParenExpr", "ImplicitCastExpr"):
            cond = cond.inner[0]
        ok_and = cond.kind == "BinaryOperator" and cond.get("opcode") == "&&"
        if not ok_and:
            rep.violation("S2", F, "scheduler", "guard of the send", "the send is not guarded by `period != -1 && elapsed >= period`")
            continue
        l, r = cond.inner
        ne = [x for x in cwalk(l) if x.kind == "BinaryOperator" and x.get("opcode") == "!="]
        minus1 = any(x.kind == "UnaryOperator" and x.get("opcode") == "-" and any(y.kind == "IntegerLiteral" and y.get("value") == "1" for y in cwalk(x)) for x in cwalk(l))
        rep.check(bool(ne) and minus1, "S2", F, "scheduler", "period != -1", "messages without a period are never sent", "the guard does not exclude messages without a period (-1)")
        ge = [x for x in cwalk(r) if x.kind == "BinaryOperator" and x.get("opcode") in (">=", ">", "<", "<=", "==")]
        if not ge:
            rep.violation("S2", F, "scheduler", "elapsed-time test", "no comparison of the elapsed time with the period")
            continue
        g = ge[0]
        rep.check(g.get("opcode") == ">=", "S2", F, "scheduler", "elapsed %s period" % g.get("opcode"), "sent as soon as exactly one period has elapsed", "the elapsed-time comparison is `%s`, it must be `>=` (reject only 'less')" % g.get("opcode"))
        lhs0 = g.inner[0]
        while lhs0.kind in ("ParenExpr", "ImplicitCastExpr"):
            if lhs0.kind == "ImplicitCastExpr" and lhs0.get("castKind") == "IntegralCast" and "unsigned" not in (lhs0.desugared or lhs0.qtype) and lhs0.qtype != "uint32_t":
                break
            lhs0 = lhs0.inner[0]
        sub = [lhs0] if lhs0.kind == "BinaryOperator" and lhs0.get("opcode") == "-" else []
        if not sub and any(x.kind == "BinaryOperator" and x.get("opcode") == "-" for x in cwalk(g.inner[0])):
            rep.violation("S2", F, "scheduler", "elapsed time converted before the comparison (%s)" % lhs0.kind, "the uint32_t difference is converted (e.g. to a signed type) before it is compared with the period: wrap-around / long gaps are misjudged")
            continue
        oks = False
        idx_test = None
        if sub:
            a, b2 = sub[0].inner
            def strip(n):
                while n.kind in ("ImplicitCastExpr", "ParenExpr"):
                    n = n.inner[0]
                return n
            a0, b0 = strip(a), strip(b2)
            oks = a0.kind == "DeclRefExpr" and a0.get("referencedDecl", {}).get("name") == tparam and b0.kind == "ArraySubscriptExpr" and refs(b0, arr) and (int_width(sub[0].qtype) == 32) and "unsigned" in (sub[0].desugared or sub[0].qtype or "unsigned") or (sub[0].qtype == "uint32_t" and a0.kind == "DeclRefExpr" and b0.kind == "ArraySubscriptExpr")
            if b0.kind == "ArraySubscriptExpr":
                idx_test = [y.get("value") for y in cwalk(b0.inner[1]) if y.kind == "IntegerLiteral"]
        rep.check(bool(oks), "S2", F, "scheduler", "%s - %s[idx] as uint32_t" % (tparam, arr), "wrap-around-safe elapsed time", "elapsed time is not computed as uint32_t `time - last_send[idx]` (wrap-around breaks, or the operands are swapped)")
        # S3
        then = b.inner[1]
        tstm = then.inner if then.kind == "CompoundStmt" else [then]
        send_i = next((i for i, s in enumerate(tstm) if s.kind == "CallExpr" and refs(s.inner[0], "send_can_func")), None)
        upd_i = next((i for i, s in enumerate(tstm) if s.kind == "BinaryOperator" and s.get("opcode") == "=" and any(y.kind == "ArraySubscriptExpr" and refs(y, arr) for y in cwalk(s.inner[0])) and refs(s.inner[1], tparam)), None)
        enc_i = next((i for i, s in enumerate(tstm) if s.kind == "DeclStmt" and any(x.kind == "CallExpr" for x in cwalk(s))), None)
        rep.check(send_i is not None and enc_i is not None and enc_i < send_i, "S3", F, "scheduler", "CanFrame frame = can_encode_msg_x(&dev->x); send_can_func(&frame);", "the frame sent is the one just encoded", "the guarded block does not encode then send one frame")
        if send_i is not None and enc_i is not None:
            fv = [vd.get("name") for vd in tstm[enc_i].inner if vd.kind == "VarDecl"]
            rep.check(bool(fv) and refs(tstm[send_i], fv[0]), "S3", F, "scheduler", "send_can_func(&%s)" % (fv[0] if fv else "?"), "sends the encoded frame", "the frame handed to the send function is not the one encoded in this block")
            dev = next((n for n, p in ps.items() if "CanDevice" in p.qtype), None)
            rep.check(dev is not None and refs(tstm[enc_i], dev), "S3", F, "scheduler", "encode(&%s->member)" % dev, "current value of the device's message", "the encoded value is not taken from the device argument")
        rep.check(upd_i is not None and send_i is not None and upd_i > send_i, "S3", F, "scheduler", "%s[idx] = %s; after the send" % (arr, tparam), "last-send time recorded for this message", "the last-send time is not updated (to the current timestamp) after the send: the message is re-sent on every call or never again")
        if upd_i is not None:
            lhs = tstm[upd_i].inner[0]
            idx_upd = [y.get("value") for y in cwalk(lhs) if y.kind == "IntegerLiteral"]
            rep.check(idx_upd == idx_test, "S3", F, "scheduler", "slot in update == slot in test (%s / %s)" % (idx_upd, idx_test), "same slot", "the slot updated is not the slot tested")
        extra_writes = [s for i, s in enumerate(tstm) if i != upd_i and s.kind in ("BinaryOperator", "CompoundAssignOperator") and (refs(s.inner[0], arr) or refs(s.inner[0], prev))]
        rep.check(not extra_writes, "S3", F, "scheduler", "no other write to the scheduler state in the block", "state changes only by the update", "the guarded block writes the scheduler state in another place")
