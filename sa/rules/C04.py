"""C04 - packed CAN layout tiles the message: no gaps, no overlaps, field-id order.

R04.1 reset dominates layout; nothing but the output list and the bit cursor is written during layout
R04.2 every emitted leaf is (start = cursor, length = L) followed on every path by cursor += L
R04.3 L comes from the type-length function, which is exhaustive over fixed-size classes, raises for the
      rest, and takes the enum width from get_packed_size() unmodified
R04.4 order: ascending field id (shared with C15)
R04.5 per-signal options attached to a leaf are looked up under exactly that field's name
R04.6 schema objects are not mutated (only copies are written)
"""

from __future__ import annotations

import ast
from typing import Dict, List, Optional, Set

from ..front_py import AnalysisError, FuncInfo, walk_local, norm, dotted
from ..dataflow import Defs, Provenance, stores_in, resolve_local
from ..predicates import Extractor, Undecided, canon
from .codec_py import lin, lin_eq, fmt_lin
from .C15 import order_of

ENCODER = "fcp.encoding.PackedEncoder"
VALUE = "fcp.encoding.Value"


def run(eng, rep) -> None:
    prog, cg, T = eng.prog, eng.cg, eng.T
    rep.explanation = (
        "The layout encoder is a cursor program over (output list, bit cursor). If every emitted leaf is (start = cursor, "
        "length = L) followed on every path by cursor += L with the same L, nothing else writes the cursor, and list and cursor "
        "are re-initialised (rebound, not cleared) at the public entry before any layout step, then leaves tile from bit 0 without "
        "gaps or overlaps for every struct shape and every call history. L must come from the type-length function, which must "
        "be exhaustive over the fixed-size type classes and raise for the rest; the enum width must be get_packed_size() unmodified."
    )
    rep.rule("R04.1", "generate(): fresh rebinding of the output list and cursor = 0 dominate the first layout step; no other attribute written during layout")
    rep.rule("R04.2", "each leaf is emitted at the cursor with length L and the cursor then advances by the same L on every path")
    rep.rule("R04.3", "L = type-length function; exhaustive, raises for variable-size classes; enum width = get_packed_size() unmodified")
    rep.rule("R04.4", "struct fields are laid out in ascending field_id")
    rep.rule("R04.5", "options of a leaf are looked up under exactly the emitted field's name; the lookup is an exact-name match; the shared default is never mutated")
    rep.rule("R04.6", "attribute stores on non-self objects target only copies")
    rep.rule("R04.8", "a loop that descends a nested type accumulates the size of the level it is at, not of the type it started from")
    rep.rule("R04.9", "a key that stands for a schema type in the layout encoder reads every field that tells two types apart")
    from .lints import type_identity_keys
    type_identity_keys(eng, rep, "R04.9", ("fcp.encoding",))
    rep.rule("R04.7", "hierarchical names: the name prefix received by a layout step is handed on (extended or unchanged) to every layout step it calls, and the leaf name starts with it")
    rep.assume("propagation of an array field's options to its unrolled elements is not decided; uniqueness of names is decided only as prefix threading (R04.7), given unique field names per struct (C09)")
    enc = prog.cls(ENCODER)
    gen = enc.methods.get("generate")
    if gen is None:
        raise AnalysisError("anchor vanished: PackedEncoder.generate")
    # layout methods: reachable from generate inside the class
    reach = [prog.functions[q] for q in cg.reachable([gen.qual]) if prog.functions[q].cls is enc]
    # discover list and cursor attributes from the leaf emission sites
    emits = []
    for f in reach:
        for n in walk_local(f.node):
            if isinstance(n, ast.Call) and isinstance(n.func, ast.Attribute) and n.func.attr == "append" and n.args:
                a0 = resolve_local(n.args[0], Defs(f.node))
                if isinstance(a0, ast.Call):
                    cs = cg.site_of.get(id(a0))
                    if cs and any(c.startswith(VALUE + ".") for c in cs.callees):
                        emits.append((f, n, a0))
    live = [(f, n, v) for f, n, v in emits]
    rep.floor("R04.2", "leaf emission sites", len(live), 1)
    if not live:
        raise AnalysisError("anchor vanished: no leaf emission (append(Value(...))) reachable from PackedEncoder.generate")
    LIST = norm(live[0][1].func.value)
    vinit = prog.classes[VALUE].methods["__init__"]
    vparams = [p.arg for p in vinit.params][1:]

    def arg_of(call: ast.Call, name: str) -> Optional[ast.AST]:
        for k in call.keywords:
            if k.arg == name:
                return k.value
        if name in vparams and vparams.index(name) < len(call.args):
            return call.args[vparams.index(name)]
        return None

    CUR = None
    for f, n, v in live:
        st = resolve_local(arg_of(v, "bitstart"), Defs(f.node))
        if st is not None and norm(st).startswith("self."):
            CUR = norm(st)
    if CUR is None:
        rep.violation("R04.2", live[0][0].file, live[0][0].qual, norm(live[0][2], 80), "leaf start is not the encoder's bit cursor")
        return
    # ---- R04.1 ----------------------------------------------------------------------
    cfg = eng.cfg(gen)
    layout_calls = [cs for cs in cg.sites_in(gen) if any(prog.functions[c].cls is enc for c in cs.callees if c in prog.functions)]
    first = None
    for cs in layout_calls:
        nid = cfg.stmt_node_containing(cs.node)
        if nid is not None and (first is None or nid < first):
            first = nid
    resets_list, resets_cur = set(), set()
    for n in walk_local(gen.node):
        if isinstance(n, ast.Assign):
            for t in n.targets:
                for tt, vv in (zip(t.elts, n.value.elts) if isinstance(t, ast.Tuple) and isinstance(n.value, ast.Tuple) and len(t.elts) == len(n.value.elts) else [(t, n.value)]):
                    if norm(tt) == LIST:
                        fresh = (isinstance(vv, ast.List) and not vv.elts) or (isinstance(vv, ast.Call) and dotted(vv.func) == "list" and not vv.args)
                        if fresh:
                            resets_list.add(cfg.node_for(n))
                        else:
                            rep.violation("R04.1", gen.file, gen.qual, norm(n, 60), "output list is rebound to something other than a fresh empty list")
                    if norm(tt) == CUR and isinstance(vv, ast.Constant) and vv.value == 0:
                        resets_cur.add(cfg.node_for(n))
        if isinstance(n, ast.Call) and isinstance(n.func, ast.Attribute) and norm(n.func.value) == LIST and n.func.attr == "clear":
            rep.violation("R04.1", gen.file, gen.qual, norm(n, 40), "the output list is cleared in place: the list returned by the previous call (same object) is emptied/overwritten")
    if first is None:
        rep.undecided("R04.1", gen.file, gen.qual, "layout call in generate", "not found")
    else:
        rep.check(bool(resets_list - {None}) and cfg.every_path_passes(first, resets_list - {None}), "R04.1", gen.file, gen.qual, "%s = []" % LIST, "fresh list before the first layout step",
                  "the output list is not rebound to a fresh list before layout starts: leaves of an earlier (e.g. failed) call remain, and the returned list is shared between calls")
        rep.check(bool(resets_cur - {None}) and cfg.every_path_passes(first, resets_cur - {None}), "R04.1", gen.file, gen.qual, "%s = 0" % CUR, "cursor reset before the first layout step",
                  "the bit cursor is not reset to 0 before layout starts: after a call that raised part-way the next layout does not start at bit 0")
    rets = [n for n in walk_local(gen.node) if isinstance(n, ast.Return) and n.value is not None]
    for r in rets:
        src = norm(r.value)
        if src != LIST:
            d = Defs(gen.node).values(src) if isinstance(r.value, ast.Name) else []
            okr = any(v is not None and LIST in norm(st) for k, v, st in d)
            if not okr:
                rep.undecided("R04.1", gen.file, gen.qual, norm(r, 40), "returned value is not the output list")
    # attribute write inventory during layout
    written: Dict[str, List[str]] = {}
    for f in reach:
        for kind, tgt, st in stores_in(f.node):
            t = norm(tgt)
            if t.startswith("self."):
                written.setdefault(t.split("[")[0], []).append("%s: %s" % (f.name, norm(st, 50)))
    # stores through a local alias of an encoder attribute (x = self.attr; x[k] = v) count as stores to that attribute
    for f in reach:
        dfs = Defs(f.node)
        for kind, tgt, st in stores_in(f.node):
            root = tgt
            while isinstance(root, (ast.Attribute, ast.Subscript)):
                root = root.value
            if isinstance(root, ast.Name) and root.id != "self":
                r0 = resolve_local(root, dfs)
                if self_alias(r0):
                    written.setdefault(self_alias(r0), []).append("%s: %s" % (f.name, norm(st, 50)))
    extra = sorted(set(written) - {LIST, CUR})
    # per-call state: an attribute that generate() rebinds to a fresh value before the first layout step cannot
    # carry anything over from an earlier call
    per_call = set()
    if first is not None:
        for n in walk_local(gen.node):
            if isinstance(n, (ast.Assign, ast.AnnAssign)) and n.value is not None:
                for t in (n.targets if isinstance(n, ast.Assign) else [n.target]):
                    v = n.value
                    fresh = (isinstance(v, (ast.Dict, ast.List, ast.Set)) and not (getattr(v, "elts", None) or getattr(v, "keys", None))) or isinstance(v, ast.Constant) or (isinstance(v, ast.Call) and dotted(v.func) in ("dict", "list", "set") and not v.args)
                    nid = cfg.node_for(n)
                    if norm(t) in extra and fresh and nid is not None and cfg.every_path_passes(first, {nid}):
                        per_call.add(norm(t))
    for a in sorted(per_call):
        rep.ok("R04.1", enc.file, enc.qual, "%s rebound to a fresh value at the start of generate()" % a, "per-call state: nothing survives from an earlier call")
    extra = [a for a in extra if a not in per_call]
    rep.check(not extra, "R04.1", enc.file, enc.qual, "attributes written during layout: %s" % ", ".join(sorted(written)), "only the output list and the cursor (and per-call state reset by generate())",
              "layout writes other encoder state (%s): the layout of a binding can depend on earlier calls" % ", ".join(extra))
    # ---- R04.2 ----------------------------------------------------------------------
    names = {CUR: "cursor"}
    for f, n, v in live:
        st, ln = arg_of(v, "bitstart"), arg_of(v, "bitlength")
        st_r = resolve_local(st, Defs(f.node)) if st is not None else None
        rep.check(st is not None and (norm(st) == CUR or norm(st_r) == CUR), "R04.2", f.file, f.qual, "start = %s" % (norm(st) if st is not None else "?"), "leaf starts at the cursor", "leaf start is not the bit cursor (gap/overlap)")
        cfgf = eng.cfg(f)
        nid = cfgf.stmt_node_containing(n)
        advs = []
        for w in walk_local(f.node):
            if isinstance(w, ast.AugAssign) and norm(w.target) == CUR:
                advs.append(w)
            elif isinstance(w, ast.Assign) and any(norm(t) == CUR for t in w.targets):
                wid = cfgf.node_for(w)
                if f is gen and isinstance(w.value, ast.Constant) and w.value.value == 0 and wid is not None and nid is not None and cfgf.every_path_passes(nid, {wid}):
                    continue  # the reset of R04.1: it comes before every emission
                advs.append(w)
        good = []
        defs_f = Defs(f.node)

        def same_len(e) -> bool:
            """e denotes the emitted leaf's length: the same expression (through single local bindings) or the
            .bitlength of the emitted Value object"""
            if ln is None:
                return False
            if norm(e) == norm(ln) or norm(resolve_local(e, defs_f)) == norm(resolve_local(ln, defs_f)):
                return True
            if isinstance(e, ast.Attribute) and e.attr == "bitlength" and resolve_local(e.value, defs_f) is v:
                return True
            return False

        def cursor_before(e) -> bool:
            """e is the cursor, or a local that captured the cursor (off = self.bitstart) before the emission"""
            if norm(e) == CUR:
                return True
            r = resolve_local(e, defs_f)
            return r is not e and norm(r) == CUR

        for w in advs:
            if isinstance(w, ast.AugAssign) and isinstance(w.op, ast.Add) and same_len(w.value):
                good.append(w)
            elif isinstance(w, ast.Assign) and isinstance(w.value, ast.BinOp) and isinstance(w.value.op, ast.Add) and (
                    (cursor_before(w.value.left) and same_len(w.value.right)) or (cursor_before(w.value.right) and same_len(w.value.left))):
                good.append(w)
            else:
                rep.violation("R04.2", f.file, f.qual, norm(w, 60), "cursor changes by %s but the emitted leaf has length %s: leaves no longer tile" % (norm(w.value if isinstance(w, ast.AugAssign) else w, 40), norm(ln) if ln is not None else "?"))
        gn = {cfgf.node_for(w) for w in good} - {None}
        if not good:
            rep.violation("R04.2", f.file, f.qual, norm(n, 60), "no cursor advance by the leaf length follows the emission: the next leaf overlaps this one")
        elif nid is not None:
            # every path from the emission to the normal exit passes an advance
            after = cfgf.reachable_avoiding(nid, gn)
            rep.check(cfgf.exit not in after, "R04.2", f.file, f.qual, "%s += %s after emission" % (CUR, norm(ln) if ln is not None else "?"), "advance on every path after the emission",
                      "a path from the leaf emission to the end of the function skips the cursor advance")
        # R04.3 provenance of L
        pv = Provenance(f.node)
        atoms = pv.of(ln) if ln is not None else set()
        tl = [cs for cs in cg.sites_in(f) if any(prog.functions[c].cls is enc and "length" in prog.functions[c].name for c in cs.callees if c in prog.functions)]
        from_tl = isinstance(ln, ast.Name) and any(isinstance(val, ast.Call) and cg.site_of.get(id(val)) in tl for k, val, s_ in Defs(f.node).values(ln.id))
        if from_tl or (isinstance(ln, ast.Call) and cg.site_of.get(id(ln)) in tl):
            rep.ok("R04.3", f.file, f.qual, "L = %s" % norm(ln, 40), "length comes from the type-length function, unmodified")
        else:
            rep.undecided("R04.3", f.file, f.qual, "L = %s" % (norm(ln, 40) if ln is not None else "?"), "length does not come directly from the type-length function")
    # the type-length function
    tlf = None
    for f in reach:
        tests = [x for x in walk_local(f.node) if isinstance(x, ast.Call) and dotted(x.func) == "isinstance"]
        if len(tests) >= 3 and "length" in f.name:
            tlf = f
    if tlf is None:
        rep.undecided("R04.3", enc.file, enc.qual, "type-length function", "not found")
    else:
        r043(eng, rep, tlf)
    # ---- R04.4 (ordering; shared with C15) --------------------------------------------
    for f in reach:
        ft = T.fn(f)
        for n in walk_local(f.node):
            if isinstance(n, ast.For):
                order, base = order_of(eng, f, n.iter, Defs(f.node))
                bt = ft.of(base)
                from .C15 import is_field_list
                if is_field_list(bt) or is_field_list(ft.of(n.iter)):
                    rep.check(order == "sorted", "R04.4", f.file, f.qual, "for ... in %s" % norm(n.iter, 70), "ascending field_id", "layout iterates fields in %s order, not ascending field_id" % order)
    # ---- R04.5 ----------------------------------------------------------------------
    for f, n, v in live:
        fld_name = resolve_local(arg_of(v, "name"), Defs(f.node))
        field_vars = {x.value.id for x in ast.walk(fld_name) if isinstance(x, ast.Attribute) and x.attr == "name" and isinstance(x.value, ast.Name)} if fld_name is not None else set()
        lookups = [c for c in ast.walk(f.node) if isinstance(c, ast.Call) and isinstance(c.func, ast.Attribute) and c.func.attr in ("get_signal", "get_signal_fields")]
        for c in lookups:
            a0 = c.args[0] if c.args else None
            okk = isinstance(a0, ast.Attribute) and a0.attr == "name" and isinstance(a0.value, ast.Name) and a0.value.id in field_vars
            rep.check(okk, "R04.5", f.file, f.qual, norm(c, 60), "options looked up under the emitted field's own name",
                      "per-signal options are looked up under %s, not exactly the emitted field's name: a differently named field can inherit them" % (norm(a0, 50) if a0 is not None else "?"))
        ext = arg_of(v, "extended_data")
        endi = arg_of(v, "endianess")
        if ext is not None and lookups:
            pv = Provenance(f.node)
            rep.check("call:.get_signal" in pv.of(ext) or "call:.get_signal_fields" in pv.of(ext), "R04.5", f.file, f.qual, "extended_data <- %s" % norm(ext, 30), "leaf options come from the signal lookup", "leaf options do not come from the signal-block lookup")
            if endi is not None:
                rep.check(bool(pv.of(endi) & pv.of(ext)) or "call:.get_signal" in pv.of(endi), "R04.5", f.file, f.qual, "endianess <- %s" % norm(endi, 40), "byte order comes from the same options", "byte order does not come from the field's own options")
    gs = prog.functions.get("fcp.specs.impl.Impl.get_signal")
    if gs is not None:
        e2 = Extractor(gs.node, lambda v: False, lambda v: False, {gs.params[0].arg: "SELF", gs.params[1].arg: "NAME"})
        try:
            rr = e2.run_returns()
            somes = [(p, v) for p, v in rr if isinstance(v, ast.Call) and dotted(v.func) == "Some"]
            okl = len(somes) == 1 and somes[0][0].binds == [("$1", "SELF.signals")] and list(somes[0][0].lits) in ([(True, ("eq", "$1.name", "NAME"))], [(True, ("eq", "NAME", "$1.name"))]) and canon(somes[0][1].args[0]) == "$1"
            rep.check(okl, "R04.5", gs.file, gs.qual, "exact-name lookup over self.signals", "Some(block) iff block.name == name", "signal-block lookup is not an exact-name match over the binding's signal blocks")
        except Undecided as u:
            rep.undecided("R04.5", gs.file, gs.qual, "lookup", str(u))
    # shared mutable default never mutated
    n_mut = 0
    for f in prog.functions.values():
        for kind, tgt, st in stores_in(f.node):
            if ".extended_data" in norm(tgt) and f.qual != VALUE + ".__init__":
                n_mut += 1
                rep.violation("R04.5", f.file, f.qual, norm(st, 60), "a leaf's options dict is mutated: with the shared default `extended_data=dict()` (and the signal block's own dict) this leaks options to other leaves")
    rep.ok("R04.5", "src/fcp/encoding.py", VALUE, "stores to *.extended_data anywhere: %d" % n_mut, "options dicts are read-only")
    r047(eng, rep, enc, reach, live, arg_of)
    # ---- R04.8 ----------------------------------------------------------------------
    from ..dataflow import head_reads_in_descent, overwrites_in_descent
    n_desc = 0
    for f_ in prog.functions.values():
        if f_.module.name not in ("fcp.encoding", "fcp.specs.type"):
            continue
        n_desc += 1
        for w_, st_, txt_ in head_reads_in_descent(f_.node):
            rep.violation("R04.8", f_.file, f_.qual, txt_[:70], "the loop walks down the nested type but multiplies/adds the size of the type it started from at every level: for nested arrays of different sizes the computed length is wrong, so the leaves that follow are misplaced")
        for w_, st_, txt_ in overwrites_in_descent(f_.node):
            rep.violation("R04.8", f_.file, f_.qual, txt_[:70], "the loop walks down the nested type and replaces the element count at every level instead of accumulating it: only the innermost dimension of a nested array counts, so the computed length is too small")
    rep.ok("R04.8", "-", "-", "descent loops over nested types", "%d functions scanned" % n_desc)
    # ---- R04.6 ----------------------------------------------------------------------
    for f in reach:
        defs = Defs(f.node)
        for kind, tgt, st in stores_in(f.node):
            root = tgt
            while isinstance(root, (ast.Attribute, ast.Subscript)):
                root = root.value
            if isinstance(root, ast.Name) and root.id != "self" and kind in ("attr-store", "sub-store", "mutcall", "aug") and not (kind == "aug" and isinstance(tgt, ast.Name)):
                r0 = resolve_local(root, defs)
                if self_alias(r0):
                    continue  # encoder state, judged by R04.1
                vals = defs.values(root.id)
                is_copy = bool(vals) and all(isinstance(v, ast.Call) and (dotted(v.func) or "").split(".")[-1] in ("copy", "deepcopy", "replace", "list", "sorted", "dict", "set", "tuple") for k, v, s_ in vals if k == "assign")
                fresh = bool(vals) and all(isinstance(v, (ast.List, ast.Dict, ast.ListComp)) or (isinstance(v, ast.Call) and isinstance(eng.T.fn(f).of(v), tuple) and eng.T.fn(f).of(v)[0] == "inst") for k, v, s_ in vals if k == "assign")
                if not (is_copy or fresh):
                    # what kind of object is it? a list of names, a dict of ints ... handed down by the caller is not a schema object
                    from ..types_lite import members as _members
                    occ = next((x for x in walk_local(f.node) if isinstance(x, ast.Name) and x.id == root.id), root)
                    tt = eng.T.fn(f).of(occ)

                    def schema_free(t) -> bool:
                        ms = _members(t)
                        if not ms:
                            return False
                        for u in ms:
                            if u[0] in ("prim", "none"):
                                continue
                            if u[0] in ("list", "set", "dict", "tuple", "gen"):
                                subs = [x for x in u[1:] if x is not None]
                                subs = [y for x in subs for y in (x if (isinstance(x, tuple) and x and isinstance(x[0], tuple)) else [x])]
                                if subs and all(schema_free(x) for x in subs):
                                    continue
                            return False
                        return True
                    if schema_free(tt):
                        rep.ok("R04.6", f.file, f.qual, norm(st, 60), "the object written is a plain container of names/numbers (%s), not a schema object" % root.id)
                        continue
                rep.check(is_copy or fresh, "R04.6", f.file, f.qual, norm(st, 60), "writes a copy / a fresh local", "layout mutates a schema object (%s): the caller's schema changes as a side effect" % root.id)


def self_alias(e) -> Optional[str]:
    """`self.attr` or `self.attr if c else None` -> 'self.attr'"""
    if isinstance(e, ast.Attribute) and norm(e).startswith("self."):
        return norm(e)
    if isinstance(e, ast.IfExp):
        a, b = self_alias(e.body), self_alias(e.orelse)
        none = lambda x: isinstance(x, ast.Constant) and x.value is None
        if a and (b == a or none(e.orelse)):
            return a
        if b and none(e.body):
            return b
    return None


def r047(eng, rep, enc, reach, live, arg_of) -> None:
    """Prefix threading. The prefix parameter is found by role: the parameter of the leaf emitter whose value
    is concatenated into the leaf's name; in every layout method the parameter of that name plays the role."""
    prog, cg = eng.prog, eng.cg
    pnames = set()

    def record_sites(f, nm):
        """`leaf.name` where `leaf` iterates over what a layout generator yields: the expressions the yielded records are
        built with for that field -> [(function, expr)] ; None when nm is not of that form"""
        if not (isinstance(nm, ast.Attribute) and isinstance(nm.value, ast.Name)):
            return None
        loops = [l for l in walk_local(f.node) if isinstance(l, ast.For) and isinstance(l.target, ast.Name) and l.target.id == nm.value.id and isinstance(l.iter, ast.Call)]
        if not loops:
            return None
        out = []
        for g in reach:
            for y in walk_local(g.node):
                if isinstance(y, ast.Yield) and isinstance(y.value, ast.Call):
                    r = prog.resolve_expr_symbol(g.module, g, y.value.func)
                    if r and r[0] == "class" and r[1] in prog.classes:
                        order = prog.classes[r[1]].field_order
                        if nm.attr in order:
                            i = order.index(nm.attr)
                            a = next((k.value for k in y.value.keywords if k.arg == nm.attr), None)
                            if a is None and i < len(y.value.args):
                                a = y.value.args[i]
                            if a is not None:
                                out.append((g, a))
        return out
    for f, n, v in live:
        nm = arg_of(v, "name")
        if nm is None:
            continue
        rs = record_sites(f, nm)
        if rs is not None:
            if not rs:
                rep.undecided("R04.7", f.file, f.qual, "leaf name <- %s" % norm(nm, 50), "the name is a field of a record produced elsewhere; no construction site of such records found among the layout steps")
                continue
            for g, a in rs:
                gps = {p.arg for p in g.params}
                atoms = Provenance(g.node).of(a)
                cand = [x.split("[")[0].split(".")[0] for x in atoms if not x.startswith(("const:", "call:")) and x.split("[")[0].split(".")[0] in gps - {"self"}]
                strs = [p.arg for p in g.params if p.arg in cand and (p.annotation is None or norm(p.annotation) == "str")]
                for c in strs:
                    pnames.add(c)
                    rep.ok("R04.7", g.file, g.qual, "leaf record name <- %s" % norm(a, 50), "leaf name is built from the received prefix '%s'" % c)
                if not strs:
                    rep.violation("R04.7", g.file, g.qual, "leaf record name <- %s" % norm(a, 50), "the leaf's name does not include the prefix received from the enclosing struct: leaves of two nested structs of the same type get the same name")
            continue
        ps = {p.arg for p in f.params}
        atoms = Provenance(f.node).of(nm)
        cand = [a.split("[")[0].split(".")[0] for a in atoms if not a.startswith(("const:", "call:")) and a.split("[")[0].split(".")[0] in ps - {"self"}]
        strs = [p.arg for p in f.params if p.arg in cand and (p.annotation is None or norm(p.annotation) == "str")]
        for c in strs:
            pnames.add(c)
            rep.ok("R04.7", f.file, f.qual, "leaf name <- %s" % norm(nm, 50), "leaf name is built from the received prefix '%s'" % c)
        if not strs:
            rep.violation("R04.7", f.file, f.qual, "leaf name <- %s" % norm(nm, 50), "the leaf's name does not include the prefix received from the enclosing struct: leaves of two nested structs of the same type get the same name")
    if not pnames:
        return
    n_sites = 0
    for f in reach:
        mine = [p.arg for p in f.params if p.arg in pnames]
        if not mine:
            continue
        pv = Provenance(f.node)
        for cs in cg.sites_in(f):
            for c in cs.callees:
                g = prog.functions.get(c)
                if g is None or g.cls is not enc or g not in reach:
                    continue
                theirs = [p.arg for p in g.params if p.arg in pnames]
                if not theirs:
                    continue
                q = theirs[0]
                gps = [p.arg for p in g.params][1:]
                a = None
                for k in cs.node.keywords:
                    if k.arg == q:
                        a = k.value
                if a is None and q in gps and gps.index(q) < len(cs.node.args):
                    a = cs.node.args[gps.index(q)]
                n_sites += 1
                if a is None:
                    rep.violation("R04.7", f.file, f.qual, norm(cs.node, 70), "layout step called without the name prefix (default ''): leaves below this point lose their hierarchical name, so e.g. the elements of an array inside two sub-structs of the same type collide")
                elif any(x.split("[")[0].split(".")[0] == mine[0] for x in pv.of(a)):
                    rep.ok("R04.7", f.file, f.qual, norm(cs.node, 70), "prefix handed on: %s" % norm(a, 40))
                else:
                    rep.violation("R04.7", f.file, f.qual, norm(cs.node, 70), "the prefix handed on (%s) does not contain the received prefix '%s'" % (norm(a, 40), mine[0]))
    rep.floor("R04.7", "layout-to-layout call sites carrying a prefix", n_sites, 1)


def r043(eng, rep, tlf: FuncInfo) -> None:
    prog = eng.prog
    ps = [p.arg for p in tlf.params]
    tname = ps[-1]
    ex = Extractor(tlf.node, lambda v: False, lambda v: False, {ps[0]: "SELF", tname: "T"})
    try:
        rets = ex.run_returns()
    except Undecided as u:
        rep.undecided("R04.3", tlf.file, tlf.qual, "type-length function", str(u))
        return
    handled: Dict[str, str] = {}
    for path, v in rets:
        if isinstance(v, ast.Name) and v.id == "RAISE":
            continue
        pos = [a[2] for s, a in path.lits if s and a[0] == "isinstance" and a[1] == "T"]
        for c in pos:
            for cname in [x.strip() for x in c.strip("()").split(",")]:
                handled[cname.split(".")[-1]] = canon(v) if v is not None else "None"
    # fall-through must raise: the Extractor records only returns; check the last statement
    last = tlf.node.body[-1]
    raises = any(isinstance(x, ast.Raise) for x in ast.walk(last)) and (isinstance(last, ast.Raise) or (isinstance(last, ast.If) and _final_else_raises(last)))
    rep.check(raises, "R04.3", tlf.file, tlf.qual, "else: raise", "a type without a static length raises", "the type-length function returns a value for an unhandled type class instead of raising: a variable-size field gets a width")
    var = {"StringType", "DynamicArrayType", "OptionalType"}
    for cname in sorted(var & set(handled)):
        rep.violation("R04.3", tlf.file, tlf.qual, "isinstance(type, %s) -> %s" % (cname, handled[cname][:40]), "a variable-size type class is given a static length")
    for cname in ("UnsignedType", "SignedType", "FloatType", "DoubleType"):
        if cname in handled:
            rep.check(handled[cname] in ("T.get_length()", "int(T.get_length())"), "R04.3", tlf.file, tlf.qual, "%s -> %s" % (cname, handled[cname][:50]), "declared width", "width of %s is %s, not the declared width" % (cname, handled[cname][:60]))
        else:
            rep.violation("R04.3", tlf.file, tlf.qual, "isinstance(type, %s)" % cname, "fixed-size class has no length: structs with such fields cannot be laid out")
    if "EnumType" in handled:
        e = handled["EnumType"]
        okp = e in ("FCP.get_enum(T.name).unwrap().get_packed_size()", "int(FCP.get_enum(T.name).unwrap().get_packed_size())", "SELF.fcp.get_enum(T.name).unwrap().get_packed_size()", "int(SELF.fcp.get_enum(T.name).unwrap().get_packed_size())") or e.replace(ps[1] if len(ps) > 2 else "fcp", "FCP") in ("FCP.get_enum(T.name).unwrap().get_packed_size()", "int(FCP.get_enum(T.name).unwrap().get_packed_size())")
        if okp:
            rep.ok("R04.3", tlf.file, tlf.qual, "EnumType -> %s" % e[:60], "enum width = get_packed_size(), unmodified")
        elif "get_packed_size()" in e:
            rep.violation("R04.3", tlf.file, tlf.qual, "EnumType -> %s" % e[:70], "enum width is an arithmetic modification of get_packed_size(): the layout disagrees with the canonical enum width used by the codecs")
        elif "log2" in e or "log(" in e:
            rep.violation("R04.3", tlf.file, tlf.qual, "EnumType -> %s" % e[:70], "enum width is computed by a float log formula (0 bits for max = 0, wrong above 2^49), not get_packed_size()")
        else:
            # a helper: look into it for the log2 idiom, else undecided
            helper_txt = ""
            for cs in eng.cg.sites_in(tlf):
                for c in cs.callees:
                    if c in prog.functions and prog.functions[c].module is tlf.module and prog.functions[c] is not tlf:
                        helper_txt += norm(prog.functions[c].node, 3000)
            if "get_packed_size()" in helper_txt and "log2" not in helper_txt:
                rep.undecided("R04.3", tlf.file, tlf.qual, "EnumType -> %s" % e[:70], "enum width comes from a helper that uses get_packed_size()")
            elif "log2" in helper_txt or "log(" in helper_txt:
                rep.violation("R04.3", tlf.file, tlf.qual, "EnumType -> %s" % e[:70], "enum width comes from a helper that computes it by a float log formula (0 bits for max = 0, wrong above 2^49) instead of get_packed_size()")
            else:
                rep.undecided("R04.3", tlf.file, tlf.qual, "EnumType -> %s" % e[:70], "enum width source not recognised")
    else:
        rep.violation("R04.3", tlf.file, tlf.qual, "isinstance(type, EnumType)", "enum fields have no length")
    if "ArrayType" in handled:
        a = handled["ArrayType"]
        rep.check("T.size" in a and "T.underlying_type" in a and "*" in a, "R04.3", tlf.file, tlf.qual, "ArrayType -> %s" % a[:60], "size x element length", "array length is not size x element length")


def _final_else_raises(n: ast.If) -> bool:
    while isinstance(n, ast.If):
        if not n.orelse:
            return False
        if len(n.orelse) == 1 and isinstance(n.orelse[0], ast.If):
            n = n.orelse[0]
            continue
        return any(isinstance(x, ast.Raise) for x in n.orelse)
    return False
