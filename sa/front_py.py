"""Python front end: units, symbols, imports, class hierarchy.

Nothing here imports the analysed code.  Everything is read with ``ast`` from the
working tree under ``root`` on every run.
"""

from __future__ import annotations

import ast
import json
import builtins
import os
from dataclasses import dataclass, field
from typing import Dict, Iterator, List, Optional, Tuple


class AnalysisError(Exception):
    """The analysis itself cannot proceed (vanished anchor, unparsable unit)."""


BUILTINS = set(dir(builtins))


@dataclass
class FuncInfo:
    qual: str
    name: str
    node: ast.AST  # FunctionDef | AsyncFunctionDef | Lambda
    module: "ModuleInfo"
    cls: Optional["ClassInfo"] = None
    parent: Optional["FuncInfo"] = None
    decorators: List[ast.expr] = field(default_factory=list)
    nested: Dict[str, "FuncInfo"] = field(default_factory=dict)

    @property
    def file(self) -> str:
        return self.module.relpath

    @property
    def params(self) -> List[ast.arg]:
        a = self.node.args
        return list(a.posonlyargs) + list(a.args) + ([a.vararg] if a.vararg else []) + list(
            a.kwonlyargs
        ) + ([a.kwarg] if a.kwarg else [])

    def decorator_names(self) -> List[str]:
        out = []
        for d in self.decorators:
            f = d.func if isinstance(d, ast.Call) else d
            out.append(dotted(f) or "?")
        return out

    def has_decorator(self, name: str) -> bool:
        return any(n == name or n.endswith("." + name) for n in self.decorator_names())

    def is_generator(self) -> bool:
        for n in walk_local(self.node):
            if isinstance(n, (ast.Yield, ast.YieldFrom)):
                return True
        return False

    def local_names(self) -> set:
        """Names bound in this function's own scope (params, assignments, loops...)."""
        names = {a.arg for a in self.params}
        for n in walk_local(self.node):
            if isinstance(n, ast.Name) and isinstance(n.ctx, (ast.Store, ast.Del)):
                names.add(n.id)
            elif isinstance(n, (ast.FunctionDef, ast.AsyncFunctionDef, ast.ClassDef)):
                names.add(n.name)
            elif isinstance(n, (ast.Import, ast.ImportFrom)):
                for al in n.names:
                    names.add((al.asname or al.name).split(".")[0])
            elif isinstance(n, ast.ExceptHandler) and n.name:
                names.add(n.name)
        # comprehension targets are their own scope in py3 - exclude those
        return names


@dataclass
class ClassInfo:
    qual: str
    name: str
    node: ast.ClassDef
    module: "ModuleInfo"
    base_exprs: List[ast.expr] = field(default_factory=list)
    bases: List[str] = field(default_factory=list)  # resolved quals or "ext:<dotted>"
    methods: Dict[str, FuncInfo] = field(default_factory=dict)
    ann_fields: Dict[str, ast.expr] = field(default_factory=dict)  # class-body annotations
    field_order: List[str] = field(default_factory=list)
    field_defaults: Dict[str, ast.expr] = field(default_factory=dict)

    @property
    def file(self) -> str:
        return self.module.relpath


@dataclass
class ModuleInfo:
    name: str
    path: str
    relpath: str
    tree: ast.Module
    source: str
    is_package: bool
    imports: Dict[str, Tuple] = field(default_factory=dict)
    functions: Dict[str, FuncInfo] = field(default_factory=dict)  # module-level
    classes: Dict[str, ClassInfo] = field(default_factory=dict)
    assigns: Dict[str, ast.expr] = field(default_factory=dict)  # module-level NAME = expr

    @property
    def lines(self) -> List[str]:
        return self.source.split("\n")


def dotted(e: ast.AST) -> Optional[str]:
    if isinstance(e, ast.Name):
        return e.id
    if isinstance(e, ast.Attribute):
        b = dotted(e.value)
        return None if b is None else b + "." + e.attr
    return None


def walk_local(fn_node: ast.AST) -> Iterator[ast.AST]:
    """Walk the body of a function without descending into nested defs/lambdas/classes
    (comprehensions ARE descended into; their targets are filtered by callers if needed)."""
    body = fn_node.body if not isinstance(fn_node, ast.Lambda) else [fn_node.body]
    stack = list(reversed(body))
    while stack:
        n = stack.pop()
        yield n
        if isinstance(n, (ast.FunctionDef, ast.AsyncFunctionDef, ast.ClassDef, ast.Lambda)):
            continue
        stack.extend(reversed(list(ast.iter_child_nodes(n))))


def walk_all(node: ast.AST) -> Iterator[ast.AST]:
    return ast.walk(node)


def unparse(n: ast.AST) -> str:
    try:
        return ast.unparse(n)
    except Exception:  # pragma: no cover
        return "<%s>" % type(n).__name__


def norm(n: ast.AST, limit: int = 160) -> str:
    s = " ".join(unparse(n).split())
    return s if len(s) <= limit else s[: limit - 3] + "..."


def _load_known():
    p = os.path.join(os.path.dirname(os.path.abspath(__file__)), "known_functions.json")
    try:
        d = json.load(open(p))
        return set(d["functions"]), set(d["names"]), dict(d.get("arity", {})), set(d.get("classes", []))
    except Exception:
        return None


KNOWN = _load_known()


class Program:
    """All analysed units plus symbol resolution."""

    def __init__(self, root: str):
        self.root = os.path.abspath(root)
        self.modules: Dict[str, ModuleInfo] = {}
        self.functions: Dict[str, FuncInfo] = {}
        self.classes: Dict[str, ClassInfo] = {}
        self.func_of_node: Dict[int, FuncInfo] = {}
        self.unit_files: List[str] = []
        self.normalised: Dict[str, List[str]] = {}
        self._load()
        self._link()

    # ------------------------------------------------------------------ loading
    def _unit_paths(self) -> List[Tuple[str, str, bool]]:
        out = []
        src = os.path.join(self.root, "src", "fcp")
        for dp, dn, fn in os.walk(src):
            dn.sort()
            for f in sorted(fn):
                if f.endswith(".py"):
                    p = os.path.join(dp, f)
                    rel = os.path.relpath(p, os.path.join(self.root, "src"))
                    parts = rel[:-3].split(os.sep)
                    pkg = parts[-1] == "__init__"
                    if pkg:
                        parts = parts[:-1]
                    out.append((".".join(parts), p, pkg))
        plug = os.path.join(self.root, "plugins")
        if os.path.isdir(plug):
            for d in sorted(os.listdir(plug)):
                inner = os.path.join(plug, d, d)
                if not os.path.isdir(inner):
                    continue
                for dp, dn, fn in os.walk(inner):
                    dn.sort()
                    for f in sorted(fn):
                        if f.endswith(".py"):
                            p = os.path.join(dp, f)
                            rel = os.path.relpath(p, os.path.join(plug, d))
                            parts = rel[:-3].split(os.sep)
                            pkg = parts[-1] == "__init__"
                            if pkg:
                                parts = parts[:-1]
                            out.append((".".join(parts), p, pkg))
        return out

    def _load(self) -> None:
        paths = self._unit_paths()
        if not paths:
            raise AnalysisError("no python units found under %s" % self.root)
        parsed = []
        for modname, path, pkg in paths:
            with open(path, encoding="utf-8") as f:
                src = f.read()
            try:
                tree = ast.parse(src, filename=path)
            except SyntaxError as e:
                raise AnalysisError("unit does not parse: %s: %s" % (path, e))
            parsed.append((modname, path, pkg, src, tree))
        normalise = KNOWN is not None and not os.environ.get("VERIF_NO_NORMALISE")
        idents = {}
        if normalise:
            for modname, path, pkg, src, tree in parsed:
                ids = set()
                for n in ast.walk(tree):
                    if isinstance(n, ast.Name):
                        ids.add(n.id)
                    elif isinstance(n, ast.Attribute):
                        ids.add(n.attr)
                    elif isinstance(n, ast.alias):
                        ids.add(n.name.split(".")[-1])
                idents[modname] = ids
        for modname, path, pkg, src, tree in parsed:
            if normalise:
                from .inline import normalise_module
                ext = set().union(*[v for k, v in idents.items() if k != modname]) if idents else set()
                tree, notes = normalise_module(tree, modname, KNOWN[0], KNOWN[1], ext, KNOWN[2])
                if notes:
                    self.normalised.setdefault(modname, []).extend(notes)
            rel = os.path.relpath(path, self.root)
            m = ModuleInfo(modname, path, rel, tree, src, pkg)
            self.modules[modname] = m
            self.unit_files.append(rel)
            self._collect(m)

    def _collect(self, m: ModuleInfo) -> None:
        for st in m.tree.body:
            self._collect_stmt(m, st, None, None, m.name)

    def _collect_stmt(self, m, st, cls, parent, prefix) -> None:
        if isinstance(st, (ast.FunctionDef, ast.AsyncFunctionDef)):
            self._add_func(m, st, cls, parent, prefix)
        elif isinstance(st, ast.ClassDef):
            q = prefix + "." + st.name
            ci = ClassInfo(q, st.name, st, m, list(st.bases))
            self.classes[q] = ci
            if cls is None and parent is None:
                m.classes[st.name] = ci
            for s2 in st.body:
                if isinstance(s2, ast.AnnAssign) and isinstance(s2.target, ast.Name):
                    ci.ann_fields[s2.target.id] = s2.annotation
                    ci.field_order.append(s2.target.id)
                    if s2.value is not None:
                        ci.field_defaults[s2.target.id] = s2.value
                self._collect_stmt(m, s2, ci, None, q)
        elif isinstance(st, (ast.Import, ast.ImportFrom)) and cls is None and parent is None:
            self._add_import(m, st)
        elif isinstance(st, ast.Assign) and cls is None and parent is None:
            for t in st.targets:
                if isinstance(t, ast.Name):
                    m.assigns[t.id] = st.value
        elif isinstance(st, ast.AnnAssign) and cls is None and parent is None:
            if isinstance(st.target, ast.Name) and st.value is not None:
                m.assigns[st.target.id] = st.value
        elif isinstance(st, (ast.If, ast.Try)) and cls is None and parent is None:
            for s2 in ast.iter_child_nodes(st):
                if isinstance(s2, ast.stmt):
                    self._collect_stmt(m, s2, cls, parent, prefix)

    def _add_func(self, m, st, cls, parent, prefix) -> FuncInfo:
        if parent is not None:
            q = parent.qual + ".<locals>." + st.name
        else:
            q = prefix + "." + st.name
        fi = FuncInfo(q, st.name, st, m, cls, parent, list(st.decorator_list))
        self.functions[q] = fi
        self.func_of_node[id(st)] = fi
        if cls is not None and parent is None:
            cls.methods[st.name] = fi
        elif parent is not None:
            parent.nested[st.name] = fi
        else:
            m.functions[st.name] = fi
        # nested defs (anywhere in body, not inside deeper defs)
        for n in walk_local(st):
            if isinstance(n, (ast.FunctionDef, ast.AsyncFunctionDef)):
                self._add_func(m, n, None, fi, prefix)
            elif isinstance(n, ast.ClassDef):
                pass
        return fi

    def _add_import(self, m: ModuleInfo, st) -> None:
        if isinstance(st, ast.Import):
            for al in st.names:
                local = al.asname or al.name.split(".")[0]
                target = al.name if al.asname else al.name.split(".")[0]
                m.imports[local] = ("module", target)
        else:
            base = st.module or ""
            if st.level:
                parts = m.name.split(".")
                if not m.is_package:
                    parts = parts[:-1]
                up = st.level - 1
                if up:
                    parts = parts[:-up]
                base = ".".join(parts + ([st.module] if st.module else []))
            for al in st.names:
                local = al.asname or al.name
                m.imports[local] = ("from", base, al.name)

    # ------------------------------------------------------------------ linking
    def _link(self) -> None:
        for ci in self.classes.values():
            ci.bases = []
            for b in ci.base_exprs:
                r = self.resolve_expr_symbol(ci.module, None, b)
                if r and r[0] == "class":
                    ci.bases.append(r[1])
                elif r and r[0] == "ext":
                    ci.bases.append("ext:" + r[1])
                elif r and r[0] == "builtin":
                    ci.bases.append("ext:builtins." + r[1])
                else:
                    ci.bases.append("ext:" + (dotted(b) or unparse(b)))

    def resolve_import(self, m: ModuleInfo, local: str, depth: int = 0):
        """-> ('module', name) | ('class', qual) | ('func', qual) | ('var', mod, name)
        | ('ext', dotted)"""
        imp = m.imports.get(local)
        if imp is None:
            return None
        if imp[0] == "module":
            if imp[1] in self.modules:
                return ("module", imp[1])
            return ("ext", imp[1])
        _, base, name = imp
        sub = base + "." + name if base else name
        if sub in self.modules:
            return ("module", sub)
        if base in self.modules:
            return self.lookup_module_symbol(self.modules[base], name, depth + 1)
        return ("ext", sub)

    def lookup_module_symbol(self, m: ModuleInfo, name: str, depth: int = 0):
        if depth > 8:
            return None
        if name in m.classes:
            return ("class", m.classes[name].qual)
        if name in m.functions:
            return ("func", m.functions[name].qual)
        if name in m.assigns:
            return ("var", m.name, name)
        if name in m.imports:
            return self.resolve_import(m, name, depth)
        return None

    def resolve_name(self, m: ModuleInfo, fn: Optional[FuncInfo], name: str):
        """Resolve a bare name used inside fn (or at module level when fn is None).
        -> ('local', FuncInfo) when bound in an enclosing function scope,
           ('localfunc', qual) when it is a nested def of an enclosing function,
           else module-level / import / builtin resolution."""
        f = fn
        while f is not None:
            if name in f.nested:
                return ("func", f.nested[name].qual)
            if name in f.local_names():
                return ("local", f)
            f = f.parent
        r = self.lookup_module_symbol(m, name)
        if r is not None:
            return r
        if name in BUILTINS:
            return ("builtin", name)
        return None

    def resolve_expr_symbol(self, m: ModuleInfo, fn: Optional[FuncInfo], e: ast.AST):
        """Resolve Name / dotted Attribute to a module/class/function symbol (no types)."""
        if isinstance(e, ast.Name):
            return self.resolve_name(m, fn, e.id)
        if isinstance(e, ast.Attribute):
            b = self.resolve_expr_symbol(m, fn, e.value)
            if b is None:
                return None
            if b[0] == "module":
                sub = b[1] + "." + e.attr
                if sub in self.modules:
                    return ("module", sub)
                return self.lookup_module_symbol(self.modules[b[1]], e.attr)
            if b[0] == "ext":
                return ("ext", b[1] + "." + e.attr)
            if b[0] == "class":
                ci = self.classes[b[1]]
                mi = self.find_method(ci, e.attr)
                if mi:
                    return ("func", mi.qual)
                return ("classattr", b[1], e.attr)
        return None

    # ------------------------------------------------------------------ classes
    def mro(self, ci: ClassInfo) -> List[ClassInfo]:
        out, seen = [], set()
        stack = [ci]
        while stack:
            c = stack.pop(0)
            if c.qual in seen:
                continue
            seen.add(c.qual)
            out.append(c)
            for b in c.bases:
                if b in self.classes:
                    stack.append(self.classes[b])
        return out

    def ext_bases(self, ci: ClassInfo) -> List[str]:
        out = []
        for c in self.mro(ci):
            out += [b[4:] for b in c.bases if b.startswith("ext:")]
        return out

    def find_method(self, ci: ClassInfo, name: str) -> Optional[FuncInfo]:
        for c in self.mro(ci):
            if name in c.methods:
                return c.methods[name]
        return None

    def subclasses(self, qual: str, strict: bool = False) -> List[ClassInfo]:
        out = []
        for c in self.classes.values():
            quals = [x.qual for x in self.mro(c)]
            if qual in quals and not (strict and c.qual == qual):
                out.append(c)
        return out

    def is_subclass(self, sub: str, sup: str) -> bool:
        if sub not in self.classes:
            return False
        return sup in [x.qual for x in self.mro(self.classes[sub])]

    def all_overrides(self, ci: ClassInfo, name: str) -> List[FuncInfo]:
        """Method `name` as seen on ci and on every subclass that overrides it."""
        out = []
        m0 = self.find_method(ci, name)
        if m0:
            out.append(m0)
        for sc in self.subclasses(ci.qual, strict=True):
            if name in sc.methods and sc.methods[name] not in out:
                out.append(sc.methods[name])
        return out

    # ------------------------------------------------------------------ roots
    def func(self, qual: str) -> FuncInfo:
        if qual not in self.functions:
            raise AnalysisError("anchor vanished: function %s not found" % qual)
        return self.functions[qual]

    def cls(self, qual: str) -> ClassInfo:
        if qual not in self.classes:
            raise AnalysisError("anchor vanished: class %s not found" % qual)
        return self.classes[qual]

    def enclosing_function(self, m: ModuleInfo, node: ast.AST) -> Optional[FuncInfo]:
        """Innermost FuncInfo whose node contains `node` (by position)."""
        best = None
        for fi in self.functions.values():
            if fi.module is not m:
                continue
            n = fi.node
            if n.lineno <= node.lineno <= (n.end_lineno or n.lineno):
                if best is None or (n.lineno >= best.node.lineno and (n.end_lineno or 0) <= (best.node.end_lineno or 0)):
                    best = fi
        return best
