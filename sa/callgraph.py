"""Resolved call graph with the repo's registry edges."""

from __future__ import annotations

import ast
from dataclasses import dataclass, field
from typing import Dict, List, Optional, Set, Tuple

from .front_py import Program, FuncInfo, walk_local, dotted, norm
from .types_lite import Types, members


@dataclass
class CallSite:
    caller: FuncInfo
    node: ast.Call
    callees: List[str] = field(default_factory=list)  # repo function quals
    externals: List[str] = field(default_factory=list)  # dotted external names
    how: str = ""  # direct | method | ctor | by-name | registry | unknown
    method_name: Optional[str] = None

    @property
    def where(self) -> str:
        return "%s:%d" % (self.caller.file, self.node.lineno)


class CallGraph:
    def __init__(self, prog: Program, T: Types):
        self.prog = prog
        self.T = T
        self.sites: Dict[str, List[CallSite]] = {}
        self.site_of: Dict[int, CallSite] = {}
        self.edges: Dict[str, Set[str]] = {}
        self.redges: Dict[str, Set[str]] = {}
        self.stats = {"calls": 0, "resolved": 0, "by_name": 0, "external": 0, "unknown": 0}
        self._method_index: Dict[str, List[FuncInfo]] = {}
        for f in prog.functions.values():
            if f.cls is not None and f.parent is None:
                self._method_index.setdefault(f.name, []).append(f)
        for f in prog.functions.values():
            self._scan(f)
        self._registry_edges()

    # ----------------------------------------------------------------------
    def _add_edge(self, a: str, b: str) -> None:
        self.edges.setdefault(a, set()).add(b)
        self.redges.setdefault(b, set()).add(a)

    def _scan(self, f: FuncInfo) -> None:
        ft = self.T.fn(f)
        out = []
        for n in walk_local(f.node):
            if isinstance(n, ast.Lambda):
                # calls inside lambdas belong to the enclosing function
                for n2 in ast.walk(n.body):
                    if isinstance(n2, ast.Call):
                        out.append(self._resolve(f, ft, n2))
            if isinstance(n, ast.Call):
                out.append(self._resolve(f, ft, n))
        # decorators are evaluated at definition time in the enclosing scope; ignore.
        self.sites[f.qual] = out
        for cs in out:
            self.site_of[id(cs.node)] = cs
            self.stats["calls"] += 1
            if cs.callees:
                self.stats["resolved"] += 1
                if cs.how == "by-name":
                    self.stats["by_name"] += 1
            elif cs.externals:
                self.stats["external"] += 1
            else:
                self.stats["unknown"] += 1
            for c in cs.callees:
                self._add_edge(f.qual, c)

    def _ctor(self, qual: str) -> List[str]:
        ci = self.prog.classes.get(qual)
        out = []
        if ci:
            for name in ("__init__", "__post_init__"):
                mi = self.prog.find_method(ci, name)
                if mi:
                    out.append(mi.qual)
        return out

    def _resolve(self, f: FuncInfo, ft, n: ast.Call) -> CallSite:
        cs = CallSite(f, n)
        fn = n.func
        t = ft.of(fn)
        if isinstance(fn, ast.Attribute):
            cs.method_name = fn.attr
        elif isinstance(fn, ast.Name):
            cs.method_name = fn.id
        if isinstance(fn, ast.Attribute) and isinstance(fn.value, ast.Call) and isinstance(fn.value.func, ast.Name) and fn.value.func.id == "super" and f.cls is not None:
            # super().m(...): the next definition of m above the defining class
            todo = list(f.cls.bases)
            while todo:
                b = todo.pop(0)
                if b.startswith("ext:"):
                    cs.externals.append("%s.%s" % (b[4:], fn.attr)); cs.how = "super-external"
                    break
                bc = self.prog.classes.get(b)
                if bc is None:
                    continue
                if fn.attr in bc.methods:
                    cs.callees.append(bc.methods[fn.attr].qual); cs.how = "super"
                    break
                todo += bc.bases
            if cs.callees or cs.externals:
                return cs
        for u in members(t):
            if u[0] == "func":
                cs.callees.append(u[1]); cs.how = "direct"
            elif u[0] == "boundmethod":
                # dynamic dispatch: the method on the static class + overrides below it
                ci = self.prog.classes[u[2]]
                for mi in self.prog.all_overrides(ci, self.prog.functions[u[1]].name):
                    if mi.qual not in cs.callees:
                        cs.callees.append(mi.qual)
                cs.how = "method"
            elif u[0] == "class":
                cs.callees += self._ctor(u[1]); cs.how = "ctor"
                if not cs.callees:
                    cs.externals.append("ctor:" + u[1])
            elif u[0] == "ext":
                cs.externals.append(u[1]); cs.how = cs.how or "external"
            elif u[0] == "wrapmethod":
                cs.externals.append("wrap:" + u[1][0] + "." + u[2]); cs.how = "wrap"
        if not cs.callees and not cs.externals and isinstance(fn, ast.Attribute):
            recv_t = ft.of(fn.value)
            if recv_t is not None and any(u[0] in ("extinst", "extret", "prim", "list", "dict", "set", "tuple") for u in members(recv_t)):
                for u in members(recv_t):
                    base = u[1] if u[0] in ("extinst", "extret", "prim") else u[0]
                    cs.externals.append("%s.%s" % (base, fn.attr))
                cs.how = "external"
            else:
                # unique-method-name fallback over repo classes
                cands = self._method_index.get(fn.attr, [])
                if cands and not fn.attr.startswith("__") and fn.attr not in ("get", "append", "items", "keys", "values", "read", "format", "join", "replace"):
                    cs.callees = [c.qual for c in cands]
                    cs.how = "by-name"
                else:
                    cs.externals.append("?." + fn.attr)
                    cs.how = "unknown-method"
        if not cs.callees and not cs.externals:
            cs.how = "unknown"
        return cs

    # ---------------------------------------------------------------- registry edges
    def _registry_edges(self) -> None:
        prog = self.prog
        # Verifier.run_checks -> every function decorated with @register(...)
        self.registered: List[Tuple[FuncInfo, ast.Call]] = []
        for f in prog.functions.values():
            for d in f.decorators:
                if isinstance(d, ast.Call):
                    r = prog.resolve_expr_symbol(f.module, f.parent, d.func)
                    if r and r[0] == "func" and r[1] == "fcp.verifier.register":
                        self.registered.append((f, d))
        # direct registrations: <verifier>.register(<function>, <category>) outside the decorator
        self.registered_direct: List[Tuple[FuncInfo, CallSite]] = []
        for sites in self.sites.values():
            for cs in sites:
                if "fcp.verifier.Verifier.register" in cs.callees and not cs.caller.qual.startswith("fcp.verifier.register"):
                    g = self.function_value(cs.caller, cs.node.args[0]) if cs.node.args else None
                    if g is not None:
                        self.registered_direct.append((g, cs))
        if "fcp.verifier.Verifier.run_checks" in prog.functions:
            for f, _ in self.registered:
                self._add_edge("fcp.verifier.Verifier.run_checks", f.qual)
            for f, _ in self.registered_direct:
                self._add_edge("fcp.verifier.Verifier.run_checks", f.qual)
        # Transformer.transform -> every callback of Transformer subclasses
        self.transformer_callbacks: Dict[str, List[FuncInfo]] = {}
        for ci in prog.classes.values():
            if any(b.split(".")[-1] == "Transformer" for b in prog.ext_bases(ci)):
                cbs = [m for n, m in ci.methods.items() if not n.startswith("_")]
                self.transformer_callbacks[ci.qual] = cbs

    def function_value(self, f: FuncInfo, e: ast.AST) -> Optional[FuncInfo]:
        """the repository function an expression denotes: a (local) function name, or a method named through self / cls / the class"""
        prog = self.prog
        if isinstance(e, ast.Name):
            r = prog.resolve_expr_symbol(f.module, f, e)
            if r and r[0] in ("func", "localfunc") and r[1] in prog.functions:
                return prog.functions[r[1]]
            q = "%s.<locals>.%s" % (f.qual, e.id)
            return prog.functions.get(q)
        if isinstance(e, ast.Attribute) and isinstance(e.value, ast.Name):
            ci = None
            if e.value.id in ("self", "cls") and f.cls is not None:
                ci = f.cls
            else:
                r = prog.resolve_expr_symbol(f.module, f, e.value)
                if r and r[0] == "class":
                    ci = prog.classes.get(r[1])
            if ci is not None:
                return prog.find_method(ci, e.attr)
        return None

    # ---------------------------------------------------------------- queries
    def reachable(self, roots: List[str], stop: Set[str] = frozenset(), extra: Dict[str, List[str]] = None) -> Dict[str, Optional[str]]:
        """BFS; returns {qual: predecessor} for everything reachable from roots, never
        expanding (but including) functions in `stop`."""
        pred: Dict[str, Optional[str]] = {}
        work = []
        for r in roots:
            if r not in pred:
                pred[r] = None
                work.append(r)
        while work:
            a = work.pop(0)
            if a in stop:
                continue
            succ = set(self.edges.get(a, ()))
            if extra and a in extra:
                succ |= set(extra[a])
            # nested functions defined in `a` that escape (returned/registered) are handled
            # by explicit registry edges; closures called directly are ordinary edges.
            for b in sorted(succ):
                if b not in pred:
                    pred[b] = a
                    work.append(b)
        return pred

    def path_to(self, pred: Dict[str, Optional[str]], q: str) -> List[str]:
        out = [q]
        while pred.get(out[-1]) is not None:
            out.append(pred[out[-1]])
        return list(reversed(out))

    def callers_of(self, qual: str) -> List[CallSite]:
        out = []
        for sites in self.sites.values():
            for cs in sites:
                if qual in cs.callees:
                    out.append(cs)
        return out

    def sites_in(self, f: FuncInfo) -> List[CallSite]:
        return self.sites.get(f.qual, [])
