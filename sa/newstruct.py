"""Policy for code whose structure the checker does not know.

The rules of this checker are of two kinds.  *Structure-independent* rules judge one construct by itself (a shared mutable
default, a hash() on a generate path, a bound method tested for truth, a size bound that over-counts, a key that is not
injective ...): they hold whatever the surrounding code looks like.  *Shape* rules compare the code with the structure the
checker was written against (this call feeds that argument, this loop is the layout walk, this function ends in that return):
on restructured code a mismatch says "not the shape I know", not "wrong".

New structure = functions and classes that are not in the frozen inventory (sa/known_functions.json) and that survived the
normalisation pass (small new helpers, tables, generators, multi-exit helpers ... are normalised away before any rule runs).
When a shape rule reports a violation in a function whose call cone contains new structure, the report is downgraded to
UNDECIDED and says so.  An analysis error (an internal anchor not found) in a property whose anchor files contain new structure
is downgraded likewise; with no new structure in sight it stays exit 2.  Nothing is ever downgraded on the unchanged tree:
there, nothing is new.
"""

from __future__ import annotations

import ast
import json
import os
from typing import Dict, List, Set

from .front_py import KNOWN, walk_local

STRUCTURE_INDEPENDENT = {
    "R01.7", "R01.9", "R02.7", "R02.8", "R03.9", "R03.10", "R03.11", "R03.13", "R04.6", "R05.2-lazy", "R06.8", "R07.7", "R08.7", "R12.6", "R12.8",
    "R13.7", "R15.3", "R16.6", "R17.1", "R17.2", "R17.3", "R18.6",
    # positive evidence of one harmful construct, found through resolved calls (new helpers on the way are followed, not guessed at):
    # a pre-scan that fills the name index / a filter on the merged declarations / groupby over an unsorted sequence /
    # verdict state kept on the verifier, a path to the writer that misses the gate / a send slot keyed by the period
    "R08.5", "R08.6", "R09.4", "R10.1", "R10.2", "J", "R04.8", "R06.9",
    # construct-level rules of sa/rules/lints.py
    "R01.10", "R02.9", "R04.9", "R10.4", "R14.6", "R07.8", "R11.8", "R18.7", "R09.6", "R09.7", "R14.7", "R10.5", "R15.5", "R15.6", "R16.7", "R16.8", "R16.9", "R09.8", "R14.8", "R18.8", "R10.6", "R05.5", "R07.9", "R12.9", "R01.11", "R02.10", "R20.6", "R20.7", "R11.9", "W1", "R13.6",
    # a handler the template calls and the C file does not define; a raising construct outside every handler
    "R06.2", "R11.6",
}
HERE = os.path.dirname(os.path.dirname(os.path.abspath(__file__)))


_CDEF = None
_CKEYWORDS = {"if", "for", "while", "switch", "return", "catch", "sizeof", "else", "do", "defined", "static_assert", "decltype", "alignof", "new", "delete", "throw", "case"}


def nonpy_definitions(root: str) -> Dict[str, Set[str]]:
    """relative path -> names defined in it, for the templates / C / C++ sources the plug-ins ship: C and C++ functions and
    methods (a tolerant line pattern; used only to notice that something NEW is defined), Jinja macros and imports"""
    import re
    global _CDEF
    if _CDEF is None:
        _CDEF = re.compile(r"^[ \t]*(?:template\s*<[^>]*>\s*)?(?:(?:static|inline|constexpr|virtual|explicit|friend|extern)\s+)*[\w:<>,\*&\s\[\]]*?\b([A-Za-z_~]\w*)\s*\([^;{}]*\)\s*(?:const\s*)?(?:noexcept\s*)?(?:override\s*)?(?:final\s*)?(?:->\s*[\w:<>\*&\s]+?)?(?::[^{;]*)?\{", re.M)
    out: Dict[str, Set[str]] = {}
    plug = os.path.join(root, "plugins")
    if not os.path.isdir(plug):
        return out
    for dp, dn, fn in os.walk(plug):
        if any(x in dp for x in (os.sep + "tests", os.sep + "example", "__pycache__", ".egg-info")):
            continue
        for f in fn:
            if not f.endswith((".h", ".hpp", ".c", ".cpp", ".j2", ".jinja")):
                continue
            p = os.path.join(dp, f)
            try:
                src = open(p, encoding="utf-8", errors="replace").read()
            except OSError:
                continue
            names = {m.group(1) for m in _CDEF.finditer(src) if m.group(1) not in _CKEYWORDS}
            names |= {"macro " + m.group(1) for m in re.finditer(r"\{%-?\s*macro\s+(\w+)", src)}
            names |= {"import " + m.group(1) for m in re.finditer(r"\{%-?\s*(?:import|from)\s+[\"']([^\"']+)", src)}
            out[os.path.relpath(p, root)] = names
    return out


def new_nonpy(root: str) -> Dict[str, List[str]]:
    """relative path -> definitions that the inventory does not list for that file (every definition of a file that is new)"""
    try:
        inv = json.load(open(os.path.join(HERE, "sa", "known_functions.json"))).get("nonpy")
    except Exception:
        inv = None
    if not inv:
        return {}
    out = {}
    for rel, names in nonpy_definitions(root).items():
        if rel not in inv:
            out[rel] = ["(new file)"] + sorted(names)
        else:
            extra = sorted(names - set(inv[rel]))
            if extra:
                out[rel] = extra
    return out


def raw_new_in_files(prog, files, dirs) -> List[str]:
    """functions, classes and module/class-level names that the source files of a property define (as written, before
    normalisation) and the inventory does not list"""
    if KNOWN is None:
        return []
    kf, kn = KNOWN[0], KNOWN[1]
    kc = KNOWN[3] if len(KNOWN) > 3 else set()
    out = []
    for m in prog.modules.values():
        if not (m.relpath in files or os.path.dirname(m.relpath) in dirs):
            continue
        try:
            tree = ast.parse(m.source)
        except SyntaxError:
            continue
        for st in tree.body:
            if isinstance(st, (ast.FunctionDef, ast.AsyncFunctionDef)) and "%s.%s" % (m.name, st.name) not in kf:
                out.append(st.name)
            elif isinstance(st, ast.ClassDef):
                if kc and "%s.%s" % (m.name, st.name) not in kc:
                    out.append(st.name)
                for s2 in st.body:
                    if isinstance(s2, (ast.FunctionDef, ast.AsyncFunctionDef)) and "%s.%s.%s" % (m.name, st.name, s2.name) not in kf:
                        out.append("%s.%s" % (st.name, s2.name))
                    for t2 in (s2.targets if isinstance(s2, ast.Assign) else [s2.target] if isinstance(s2, ast.AnnAssign) else []):
                        if isinstance(t2, ast.Name) and "%s.%s.%s" % (m.name, st.name, t2.id) not in kn:
                            out.append("%s.%s" % (st.name, t2.id))
            for t2 in (st.targets if isinstance(st, ast.Assign) else [st.target] if isinstance(st, ast.AnnAssign) else []):
                if isinstance(t2, ast.Name) and "%s.%s" % (m.name, t2.id) not in kn:
                    out.append(t2.id)
    return out


def raw_new_used_by(prog, quals) -> List[str]:
    """new module/class-level definitions (as written, before normalisation) that the flagged functions mention as written"""
    out = []
    for q in quals:
        f = prog.functions.get(q)
        if f is None:
            continue
        m = f.module
        new = set(raw_new_in_files(prog, [m.relpath], []))
        if not new:
            continue
        try:
            tree = ast.parse(m.source)
        except SyntaxError:
            continue
        short = {n.split(".")[-1] for n in new}
        for n in ast.walk(tree):
            if isinstance(n, (ast.FunctionDef, ast.AsyncFunctionDef)) and n.name == f.name and abs(n.lineno - getattr(f.node, "lineno", n.lineno)) < 10 ** 6:
                for x in ast.walk(n):
                    nm = x.id if isinstance(x, ast.Name) else (x.attr if isinstance(x, ast.Attribute) else None)
                    if nm in short and nm not in out:
                        out.append(nm)
    return out


def new_structure(prog) -> Dict[str, Set[str]]:
    """-> {'funcs': quals of functions/methods not in the inventory, 'classes': quals of classes not in the inventory}"""
    if KNOWN is None:
        return {"funcs": set(), "classes": set()}
    kf, kc = KNOWN[0], KNOWN[3] if len(KNOWN) > 3 else set()
    nf = set()
    for q, f in prog.functions.items():
        if "<locals>" in q or "<lambda>" in q:
            continue
        if q not in kf:
            nf.add(q)
    nc = {q for q in prog.classes if kc and q not in kc}
    return {"funcs": nf, "classes": nc}


def cone(eng, qual: str, depth: int = 3, limit: int = 80) -> Set[str]:
    out, frontier = {qual}, {qual}
    for _ in range(depth):
        nxt = set()
        for a in frontier:
            for b in eng.cg.edges.get(a, ()):
                if b not in out and len(out) < limit:
                    out.add(b)
                    nxt.add(b)
        frontier = nxt
    return out


def new_on_path(eng, ns, qual: str) -> List[str]:
    prog = eng.prog
    hits: List[str] = []
    quals = []
    if qual in prog.functions:
        quals = [qual]
    elif qual in prog.classes:
        # the class and what it inherits: a method moved into a base class is still this class's behaviour
        quals = [m.qual for c in prog.mro(prog.classes[qual]) for m in c.methods.values()]
        if qual in ns["classes"]:
            hits.append(qual)
    new_class_names = {q.split(".")[-1]: q for q in ns["classes"]}
    for q0 in quals:
        for q in cone(eng, q0):
            if q in ns["funcs"]:
                hits.append(q)
            f = prog.functions.get(q)
            if f is None:
                continue
            if f.cls is not None and f.cls.qual in ns["classes"]:
                hits.append(f.cls.qual)
            if new_class_names:
                for n in ast.walk(f.node):
                    if isinstance(n, ast.Name) and n.id in new_class_names:
                        hits.append(new_class_names[n.id])
                    elif isinstance(n, ast.Attribute) and n.attr in new_class_names:
                        hits.append(new_class_names[n.attr])
    seen, out = set(), []
    for h in hits:
        if h not in seen:
            seen.add(h)
            out.append(h)
    return out


def anchor_files(pid: str) -> List[str]:
    try:
        for l in open(os.path.join(HERE, "properties.jsonl")):
            d = json.loads(l)
            if d["id"] == pid:
                return list(d.get("anchors", {}).get("files", []))
    except Exception:
        pass
    return []


def apply(eng, rep) -> None:
    prog = eng.prog
    ns = new_structure(prog)
    if not ns["funcs"] and not ns["classes"] and not new_nonpy(eng.root) and not rep.errors:
        return
    # violations of shape rules in code that uses new structure
    for o in rep.obls:
        if o["verdict"] != "violation" or o["rule"] in STRUCTURE_INDEPENDENT or o.get("construct_level"):
            continue
        fn = o["function"]
        parts = [p.strip() for p in fn.replace(" / ", "|").split("|")]
        hits: List[str] = []
        resolved = False
        for p in parts:
            if p in prog.functions or p in prog.classes:
                resolved = True
            hits += new_on_path(eng, ns, p)
            # the contract of a function also changes with the code around its call sites: cones of its direct callers
            if p in prog.functions and not hits:
                for cs in eng.cg.callers_of(p):
                    hits += new_on_path(eng, ns, cs.caller.qual)
        if not resolved and not hits:
            # the report is not attached to one function (an inventory of checks, a table, a template): new structure anywhere in
            # the property's own files counts
            files = anchor_files(rep.pid)
            dirs = {os.path.dirname(f) for f in files}
            for q in sorted(ns["funcs"]):
                if prog.functions[q].file in files or os.path.dirname(prog.functions[q].file) in dirs:
                    hits.append(q)
            for q in sorted(ns["classes"]):
                if prog.classes[q].file in files or os.path.dirname(prog.classes[q].file) in dirs:
                    hits.append(q)
            if o["file"] not in ("-", "") and not o["file"].endswith(".py"):
                # a report on a template / C / C++ source: new definitions in that file or in a file next to it
                nn = new_nonpy(eng.root)
                d_ = os.path.dirname(o["file"])
                if any(fn.split("::")[-1] == x for xs in nn.values() for x in xs):
                    continue  # the report is ABOUT a new definition: the rule read that code itself, it did not trip over it
                hits = [x for rel, xs in sorted(nn.items()) if os.path.dirname(rel) == d_ or rel == o["file"] for x in xs if x != "(new file)"] + [rel for rel, xs in sorted(nn.items()) if os.path.dirname(rel) == d_ and "(new file)" in xs]
        if not hits:
            # helpers / tables / constants of the change that the normaliser removed again: when a shape rule still objects to
            # the function that used them, the mismatch may be the normaliser's (it reduced most of the change, not all of it)
            hits = raw_new_used_by(prog, parts)
        if hits:
            o["verdict"] = "undecided"
            o["detail"] = "not decided: this path uses structure that is not in the checker's inventory (%s); against the known shape the rule would report: %s" % (", ".join(h.split(".")[-1] for h in hits[:4]), o["detail"][:300])
    # internal anchors not found while the property's files contain new structure
    if rep.errors:
        files = anchor_files(rep.pid)
        dirs = {os.path.dirname(f) for f in files}
        near = []
        for q in sorted(ns["funcs"]):
            f = prog.functions[q]
            if f.file in files or os.path.dirname(f.file) in dirs:
                near.append(q)
        for q in sorted(ns["classes"]):
            c = prog.classes[q]
            if c.file in files or os.path.dirname(c.file) in dirs:
                near.append(q)
        nn = new_nonpy(eng.root)
        for rel, xs in sorted(nn.items()):
            if rel in files or os.path.dirname(rel) in dirs:
                near += [x if x != "(new file)" else rel for x in xs]
        if not near:
            # structure that the normaliser removed again (helpers, tables, constants) but that left the code in a form the
            # anchor search does not recognise: look at the files as written
            near += raw_new_in_files(prog, files, dirs)
        soft = [e for e in rep.errors if not e.startswith("checker crashed") and "does not parse" not in e]
        if near and len(soft) == len(rep.errors):
            for e in rep.errors:
                rep.undecided("-", "-", "-", "analysis of this property", "not decided: %s; the property's files contain structure that is not in the checker's inventory (%s)" % (e[:200], ", ".join(x.split(".")[-1] for x in near[:5])))
            del rep.errors[:]
