"""Semantics-preserving normalisation of a module's AST before analysis.

The rules of this checker are anchored on the functions and module-level names of the repository as it is today
(frozen inventory: sa/known_functions.json).  A later change often *adds* structure without changing behaviour:
an extracted private helper, a module-level constant, a dispatch table walked by a loop.  Such additions are
normalised away, so that the rules see the program in the shape they know:

  N1  a call to a NEW (not in the inventory) private helper defined in the same module / class is inlined when that
      is straightforward: no decorators, no *args/**kwargs, no yield, no nested defs, not recursive, and `return`
      only as its last statement.  Single-expression helpers are beta-reduced in place; longer helpers are inlined
      where the call is the whole right-hand side of an assignment, a return value, an expression statement, the
      iterable of a `for`, or the iterable of the first generator of a comprehension in one of those positions.
  N2  a NEW module-level (or class-level) name bound once to a literal / constructor call of literals and never written
      through is replaced by (a copy of) its value at every use.
  N3  `for a, b in <tuple/list literal of tuples>:` is unrolled (at most 24 elements).
  N4  `(lambda p, q: e)(x, y)` is beta-reduced; `getattr(x, "name")` becomes `x.name`.

Everything is alpha-renamed with a per-site suffix, so no capture can occur.  On the unchanged tree nothing is new,
hence nothing is rewritten.  A helper that cannot be inlined stays as it is (the rules then see a call).
"""

from __future__ import annotations

import ast
import copy
from typing import Dict, List, Optional, Set, Tuple

MAX_UNROLL = 24
MAX_PASSES = 4


def _walk_local(fn: ast.AST):
    """nodes of a function body without descending into nested defs/classes (lambdas are descended)"""
    stack = list(ast.iter_child_nodes(fn))
    while stack:
        n = stack.pop()
        yield n
        if isinstance(n, (ast.FunctionDef, ast.AsyncFunctionDef, ast.ClassDef)):
            continue
        stack.extend(ast.iter_child_nodes(n))


def _bound_names(fd: ast.FunctionDef) -> Set[str]:
    out: Set[str] = set()
    a = fd.args
    for p in list(a.posonlyargs) + list(a.args) + list(a.kwonlyargs):
        out.add(p.arg)
    for n in _walk_local(fd):
        if isinstance(n, ast.Name) and isinstance(n.ctx, (ast.Store, ast.Del)):
            out.add(n.id)
        elif isinstance(n, ast.arg):
            out.add(n.arg)
        elif isinstance(n, ast.ExceptHandler) and n.name:
            out.add(n.name)
        elif isinstance(n, ast.FunctionDef):
            out.add(n.name)
        elif isinstance(n, (ast.Import, ast.ImportFrom)):
            for al in n.names:
                out.add((al.asname or al.name).split(".")[0])
    return out


def _body_wo_doc(fd: ast.FunctionDef) -> List[ast.stmt]:
    b = list(fd.body)
    if b and isinstance(b[0], ast.Expr) and isinstance(b[0].value, ast.Constant) and isinstance(b[0].value.value, str):
        b = b[1:]
    return b


def can_inline(fd: ast.AST) -> bool:
    if not isinstance(fd, ast.FunctionDef):
        return False
    for d in fd.decorator_list:
        if not (isinstance(d, ast.Name) and d.id == "staticmethod"):
            return False
    a = fd.args
    if a.vararg:
        return False
    if a.kwarg:
        # only pure forwarding: every use of the name is `f(..., **kw)`
        kw = a.kwarg.arg
        uses = [n for n in _walk_local(fd) if isinstance(n, ast.Name) and n.id == kw]
        fwd = [k.value for n in _walk_local(fd) if isinstance(n, ast.Call) for k in n.keywords if k.arg is None and isinstance(k.value, ast.Name) and k.value.id == kw]
        if len(uses) != len(fwd) or not fwd:
            return False
    body = _body_wo_doc(fd)
    if not body or len(body) > 40:
        return False
    for n in _walk_local(fd):
        if isinstance(n, (ast.Yield, ast.YieldFrom, ast.Await, ast.Global, ast.Nonlocal, ast.AsyncFunctionDef, ast.ClassDef)):
            return False
        if isinstance(n, ast.FunctionDef):
            # a local closure is fine when it is plain (no decorators, no nonlocal/global, no yield)
            if n.decorator_list or any(isinstance(x, (ast.Nonlocal, ast.Global, ast.Yield, ast.YieldFrom, ast.Return)) and not isinstance(x, ast.Return) for x in ast.walk(n)):
                return False
        if isinstance(n, ast.Call) and isinstance(n.func, ast.Name) and n.func.id == fd.name:
            return False
        if isinstance(n, ast.Call) and isinstance(n.func, ast.Attribute) and n.func.attr == fd.name and isinstance(n.func.value, ast.Name) and n.func.value.id in ("self", "cls"):
            return False
        if isinstance(n, ast.Call) and isinstance(n.func, ast.Name) and n.func.id in ("locals", "vars", "globals", "super"):
            return False
    rets = [n for n in _walk_local(fd) if isinstance(n, ast.Return)]
    if len(rets) > 1 or (rets and rets[0] is not body[-1]):
        # several exits: inlinable at statement level as a `while True: ... break` block, unless an exit sits inside a loop of the
        # helper (a break would leave that loop only) or in a `finally`
        for lp in _walk_local(fd):
            if isinstance(lp, (ast.For, ast.While, ast.AsyncFor)) and any(isinstance(x, ast.Return) for b in lp.body + lp.orelse for x in ast.walk(b)):
                return False
            if isinstance(lp, ast.Try) and any(isinstance(x, ast.Return) for b in lp.finalbody for x in ast.walk(b)):
                return False
            if isinstance(lp, (ast.With, ast.AsyncWith)) and any(isinstance(x, ast.Return) for b in lp.body for x in ast.walk(b)):
                pass
        fd._fcpv_multi = True
    return True



def _structure_once(stmts: List[ast.stmt]) -> Optional[List[ast.stmt]]:
    """`while True:` block that runs once (every path ends in `break`, `return` or `raise`) -> the same statements as nested
    if/else without the breaks; None when a break sits where that cannot be done (inside try/with, or a path falls off the end)"""

    def has_break(n: ast.AST) -> bool:
        # a break that would belong to the once-block (not to a loop nested in n)
        if isinstance(n, (ast.Break, ast.Continue)):
            return True
        if isinstance(n, (ast.For, ast.While, ast.AsyncFor)):
            return any(has_break(c) for c in n.orelse)
        if isinstance(n, (ast.FunctionDef, ast.AsyncFunctionDef, ast.Lambda, ast.ClassDef)):
            return False
        return any(has_break(c) for c in ast.iter_child_nodes(n))

    def conv(ss):
        """-> (stmts, terminated) or None"""
        out: List[ast.stmt] = []
        for i, st in enumerate(ss):
            if isinstance(st, ast.Break):
                return out, True
            if isinstance(st, ast.Continue):
                return None
            if isinstance(st, (ast.Return, ast.Raise)):
                out.append(st)
                return out, True
            if isinstance(st, ast.If):
                b = conv(st.body)
                o = conv(st.orelse)
                if b is None or o is None:
                    return None
                (bs, bt), (os_, ot) = b, o
                if bt and ot:
                    out.append(ast.copy_location(ast.If(test=st.test, body=bs or [ast.Pass()], orelse=os_), st))
                    return out, True
                if not bt and not ot:
                    out.append(ast.copy_location(ast.If(test=st.test, body=bs or [ast.Pass()], orelse=os_), st))
                    continue
                rest = conv(ss[i + 1:])
                if rest is None:
                    return None
                rs, rt = rest
                if bt:
                    if bs:
                        out.append(ast.copy_location(ast.If(test=st.test, body=bs, orelse=os_ + rs), st))
                    elif os_ + rs:
                        out.append(ast.copy_location(ast.If(test=ast.UnaryOp(op=ast.Not(), operand=st.test), body=os_ + rs, orelse=[]), st))
                else:
                    out.append(ast.copy_location(ast.If(test=st.test, body=(bs + rs) or [ast.Pass()], orelse=os_), st))
                return out, rt
            if has_break(st):
                return None
            out.append(st)
        return out, False

    r = conv(stmts)
    if r is None or not r[1]:
        return None
    return r[0] or [ast.Pass()]

class _Rename(ast.NodeTransformer):
    def __init__(self, mapping: Dict[str, ast.AST], rename: Dict[str, str]):
        self.mapping = mapping  # name -> expression to substitute (loads only)
        self.rename = rename    # name -> new name

    def visit_Name(self, n: ast.Name):
        if n.id in self.mapping and isinstance(n.ctx, ast.Load):
            return copy.deepcopy(self.mapping[n.id])
        if n.id in self.rename:
            return ast.copy_location(ast.Name(id=self.rename[n.id], ctx=n.ctx), n)
        return n

    def visit_arg(self, n: ast.arg):
        if n.arg in self.rename:
            n.arg = self.rename[n.arg]
        return n

    def visit_FunctionDef(self, n: ast.FunctionDef):
        if n.name in self.rename:
            n.name = self.rename[n.name]
        self.generic_visit(n)
        return n

    def visit_ExceptHandler(self, n: ast.ExceptHandler):
        if n.name and n.name in self.rename:
            n.name = self.rename[n.name]
        self.generic_visit(n)
        return n


def _simple(e: ast.AST) -> bool:
    """an expression that can be duplicated / moved without changing behaviour"""
    if isinstance(e, (ast.Name, ast.Constant)):
        return True
    if isinstance(e, ast.Attribute):
        return _simple(e.value)
    if isinstance(e, ast.Lambda):
        return True
    if isinstance(e, ast.Subscript):
        return _simple(e.value) and isinstance(e.slice, ast.Constant)
    return False


def _uses(body_nodes, name: str) -> int:
    return sum(1 for b in body_nodes for n in ast.walk(b) if isinstance(n, ast.Name) and n.id == name and isinstance(n.ctx, ast.Load))


def _stored(fd: ast.FunctionDef, name: str) -> bool:
    for n in _walk_local(fd):
        if isinstance(n, ast.Name) and n.id == name and isinstance(n.ctx, (ast.Store, ast.Del)):
            return True
    return False


class Normaliser:
    def __init__(self, tree: ast.Module, modname: str, known_funcs: Set[str], known_names: Set[str]):
        self.tree = tree
        self.mod = modname
        self.known_funcs = known_funcs
        self.known_names = known_names
        self.counter = 0
        self.notes: List[str] = []
        self.helpers: Dict[Tuple[Optional[str], str], ast.FunctionDef] = {}
        self.consts: Dict[Tuple[Optional[str], str], ast.AST] = {}

    # ------------------------------------------------------------------ discovery
    @staticmethod
    def _closure_to_lambda(fd: ast.FunctionDef) -> None:
        """def f(a): def g(x): return E; return g   ->   def f(a): return lambda x: E"""
        body = _body_wo_doc(fd)
        if len(body) == 2 and isinstance(body[0], ast.FunctionDef) and isinstance(body[1], ast.Return) and isinstance(body[1].value, ast.Name) and body[1].value.id == body[0].name:
            g = body[0]
            gb = _body_wo_doc(g)
            a = g.args
            if len(gb) == 1 and isinstance(gb[0], ast.Return) and gb[0].value is not None and not g.decorator_list and not a.vararg and not a.kwarg:
                lam_args = copy.deepcopy(a)
                for x in list(lam_args.posonlyargs) + list(lam_args.args) + list(lam_args.kwonlyargs):
                    x.annotation = None
                lam = ast.Lambda(args=lam_args, body=gb[0].value)
                ret = ast.Return(value=lam)
                ast.copy_location(ret, body[1])
                ast.fix_missing_locations(ret)
                fd.body = [s_ for s_ in fd.body if s_ is not g and s_ is not body[1]] + [ret]

    @staticmethod
    def _fusable_generator(fd: ast.FunctionDef) -> bool:
        """a plain generator whose `yield`s are statements: `for x in G(..): BODY` can be replaced by G's body with each
        `yield E` turned into `x = E; BODY`"""
        if fd.decorator_list and not all(isinstance(d, ast.Name) and d.id == "staticmethod" for d in fd.decorator_list):
            return False
        if fd.args.vararg or fd.args.kwarg or len(_body_wo_doc(fd)) > 30:
            return False
        ys = 0
        for n in _walk_local(fd):
            if isinstance(n, (ast.YieldFrom, ast.Await, ast.Global, ast.Nonlocal, ast.FunctionDef, ast.AsyncFunctionDef, ast.ClassDef, ast.Lambda, ast.Try)):
                return False
            if isinstance(n, ast.Return) and n.value is not None:
                return False
            if isinstance(n, ast.Return):
                return False
            if isinstance(n, ast.Call) and ((isinstance(n.func, ast.Name) and n.func.id == fd.name) or (isinstance(n.func, ast.Attribute) and n.func.attr == fd.name)):
                return False
            if isinstance(n, ast.Yield):
                ys += 1
        # every yield is an expression statement
        stmts_y = sum(1 for n in _walk_local(fd) if isinstance(n, ast.Expr) and isinstance(n.value, ast.Yield))
        return ys > 0 and ys == stmts_y

    def discover(self) -> None:
        self.finders: Dict[str, ast.FunctionDef] = {}
        self.gens: Dict[Tuple[Optional[str], str], ast.FunctionDef] = {}
        for st in self.tree.body:
            if isinstance(st, ast.FunctionDef) and "%s.%s" % (self.mod, st.name) not in self.known_funcs and self._fusable_generator(st):
                self.gens[(None, st.name)] = st
            elif isinstance(st, ast.ClassDef) and any(q.startswith("%s.%s." % (self.mod, st.name)) for q in self.known_funcs):
                for s2 in st.body:
                    if isinstance(s2, ast.FunctionDef) and "%s.%s.%s" % (self.mod, st.name, s2.name) not in self.known_funcs and self._fusable_generator(s2):
                        self.gens[(st.name, s2.name)] = s2
        for st in self.tree.body:
            if isinstance(st, ast.FunctionDef) and "%s.%s" % (self.mod, st.name) not in self.known_funcs:
                self._closure_to_lambda(st)
                if self._finder_shape(st) is not None:
                    self.finders[st.name] = st
        arity = getattr(self, "arity", {})

        def nargs(fd):
            return len(fd.args.posonlyargs) + len(fd.args.args) + len(fd.args.kwonlyargs)

        def presumed_renames(scope_prefix: str, present: List[ast.FunctionDef]) -> Set[str]:
            """new functions of a scope that take the place of a known function that is gone (same number of parameters):
            presumably the same function under a new name - they are not treated as helpers to inline"""
            names_now = {f.name for f in present}
            gone = [q for q in self.known_funcs if q.startswith(scope_prefix) and "." not in q[len(scope_prefix):] and q[len(scope_prefix):] not in names_now]
            pool = sorted(arity.get(q, -1) for q in gone)
            out = set()
            for f in present:
                if scope_prefix + f.name in self.known_funcs:
                    continue
                if nargs(f) in pool:
                    pool.remove(nargs(f))
                    out.add(f.name)
            return out
        top_funcs = [st for st in self.tree.body if isinstance(st, ast.FunctionDef)]
        ren_top = presumed_renames(self.mod + ".", top_funcs)
        for st in self.tree.body:
            if isinstance(st, ast.FunctionDef) and "%s.%s" % (self.mod, st.name) not in self.known_funcs and st.name not in ren_top and can_inline(st):
                self.helpers[(None, st.name)] = st
            elif isinstance(st, ast.ClassDef):
                cprefix = "%s.%s." % (self.mod, st.name)
                if not any(q.startswith(cprefix) for q in self.known_funcs):
                    continue  # a class the inventory does not know: its methods are its interface, not helpers
                ren = presumed_renames(cprefix, [m_ for m_ in st.body if isinstance(m_, ast.FunctionDef)])
                for s2 in st.body:
                    if isinstance(s2, ast.FunctionDef) and s2.name in ren:
                        continue
                    if isinstance(s2, ast.FunctionDef) and "%s.%s.%s" % (self.mod, st.name, s2.name) not in self.known_funcs and can_inline(s2) and not s2.name.startswith("__") or \
                       (isinstance(s2, ast.FunctionDef) and s2.name.startswith("__") and not s2.name.endswith("__") and "%s.%s.%s" % (self.mod, st.name, s2.name) not in self.known_funcs and can_inline(s2)):
                        self.helpers[(st.name, s2.name)] = s2
        # constants
        written = self._written_roots()
        def consider(scope, st):
            tgt, val = None, None
            if isinstance(st, ast.Assign) and len(st.targets) == 1 and isinstance(st.targets[0], ast.Name):
                tgt, val = st.targets[0].id, st.value
            elif isinstance(st, ast.AnnAssign) and isinstance(st.target, ast.Name) and st.value is not None:
                tgt, val = st.target.id, st.value
            if tgt is None:
                return
            q = "%s.%s" % (self.mod, tgt) if scope is None else "%s.%s.%s" % (self.mod, scope, tgt)
            if q in self.known_names or tgt in written or tgt.startswith("__"):
                return
            if self._const_expr(val):
                self.consts[(scope, tgt)] = val
        counts: Dict[str, int] = {}
        for st in self.tree.body:
            for t in ([x for x in st.targets if isinstance(x, ast.Name)] if isinstance(st, ast.Assign) else ([st.target] if isinstance(st, ast.AnnAssign) and isinstance(st.target, ast.Name) else [])):
                counts[t.id] = counts.get(t.id, 0) + 1
        for st in self.tree.body:
            consider(None, st)
            if isinstance(st, ast.ClassDef):
                for s2 in st.body:
                    consider(st.name, s2)
        for (scope, nm) in list(self.consts):
            if scope is None and counts.get(nm, 0) != 1:
                del self.consts[(scope, nm)]

    def _written_roots(self) -> Set[str]:
        out: Set[str] = set()
        for n in ast.walk(self.tree):
            tgts = []
            if isinstance(n, ast.Assign):
                tgts = n.targets
            elif isinstance(n, (ast.AugAssign, ast.AnnAssign)):
                tgts = [n.target]
            elif isinstance(n, ast.Delete):
                tgts = n.targets
            elif isinstance(n, ast.Call) and isinstance(n.func, ast.Attribute) and n.func.attr in ("append", "extend", "insert", "update", "setdefault", "pop", "popitem", "sort", "clear", "remove", "add", "discard", "reverse", "__setitem__"):
                tgts = [n.func]
            elif isinstance(n, ast.Global):
                out.update(n.names)
            for t in tgts:
                for tt in (t.elts if isinstance(t, (ast.Tuple, ast.List)) else [t]):
                    root = tt
                    sub = False
                    while isinstance(root, (ast.Attribute, ast.Subscript)):
                        root = root.value
                        sub = True
                    if isinstance(root, ast.Name) and sub:
                        out.add(root.id)
                    # self.X / cls.X written through
                    r2 = tt
                    while isinstance(r2, ast.Subscript):
                        r2 = r2.value
                    if isinstance(r2, ast.Attribute) and isinstance(r2.value, ast.Name) and r2.value.id in ("self", "cls"):
                        out.add(r2.attr)
        return out

    def _const_expr(self, e: ast.AST, depth: int = 0) -> bool:
        if depth > 4:
            return False
        if isinstance(e, ast.Constant):
            return True
        if isinstance(e, (ast.Tuple, ast.List, ast.Set)):
            return all(self._const_expr(x, depth + 1) for x in e.elts)
        if isinstance(e, ast.Dict):
            return all(k is not None and self._const_expr(k, depth + 1) and self._const_expr(v, depth + 1) for k, v in zip(e.keys, e.values))
        if isinstance(e, ast.Lambda):
            return True
        if isinstance(e, (ast.Name, ast.Attribute)):
            return True  # reference to a class / function / other constant
        if isinstance(e, ast.Call) and isinstance(e.func, (ast.Name, ast.Attribute)) and not e.keywords:
            nm = e.func.id if isinstance(e.func, ast.Name) else e.func.attr
            if nm in ("frozenset", "tuple") or nm[:1].isupper():
                return all(self._const_expr(a, depth + 1) for a in e.args)
            if isinstance(e.func, ast.Name) and (None, nm) in self.helpers:
                return all(self._const_expr(a, depth + 1) for a in e.args)
        if isinstance(e, ast.BinOp) and isinstance(e.op, (ast.Mult, ast.Add, ast.Sub)):
            return self._const_expr(e.left, depth + 1) and self._const_expr(e.right, depth + 1)
        if isinstance(e, ast.UnaryOp):
            return self._const_expr(e.operand, depth + 1)
        return False

    # ------------------------------------------------------------------ driver
    def run(self) -> ast.Module:
        self.discover()
        if not self.helpers and not self.consts and not self._has_table_loops():
            pass
        for _ in range(MAX_PASSES):
            changed = False
            for st in self.tree.body:
                if isinstance(st, ast.FunctionDef):
                    changed |= self._func(st, None)
                elif isinstance(st, ast.ClassDef):
                    for s2 in st.body:
                        if isinstance(s2, ast.FunctionDef):
                            changed |= self._func(s2, st.name)
            if not changed:
                break
        self._drop_unreferenced()
        ast.fix_missing_locations(self.tree)
        return self.tree

    def _drop_unreferenced(self) -> None:
        for (cls, name), fdh in list(self.helpers.items()) + list(getattr(self, "gens", {}).items()):
            refs = 0
            mangled = "_%s%s" % (cls, name) if cls and name.startswith("__") else None
            for n in ast.walk(self.tree):
                if n is fdh:
                    continue
                if isinstance(n, ast.Name) and n.id == name:
                    refs += 1
                elif isinstance(n, ast.Attribute) and n.attr in (name, mangled):
                    refs += 1
                elif isinstance(n, ast.Constant) and n.value == name:
                    refs += 1
            # references inside the helper itself do not count
            for n in ast.walk(fdh):
                if (isinstance(n, ast.Name) and n.id == name) or (isinstance(n, ast.Attribute) and n.attr in (name, mangled)):
                    refs -= 1
            if not name.startswith("_") and name in getattr(self, "external_refs", set()):
                continue  # a public helper other modules name
            if refs <= 0:
                holder = self.tree.body if cls is None else next(c.body for c in self.tree.body if isinstance(c, ast.ClassDef) and c.name == cls)
                if fdh in holder and len(holder) > 1:
                    holder.remove(fdh)
                    self.notes.append("dropped fully inlined helper %s" % name)

    def _has_table_loops(self) -> bool:
        return True

    def _func(self, fd: ast.FunctionDef, cls: Optional[str]) -> bool:
        before = ast.dump(fd)
        self._cls = cls
        self._cur = fd
        # nested functions are transformed too (their own scope)
        fd.body = self._block(fd.body, fd, top=True)
        self._local_dict_fields(fd)
        if cls is not None and fd.args.args:
            # a method taken from a class-level table and called as plain function: NAME(self, a, b) -> self.NAME(a, b)
            cdef = next((c for c in self.tree.body if isinstance(c, ast.ClassDef) and c.name == cls), None)
            mnames = {m.name for m in cdef.body if isinstance(m, ast.FunctionDef)} if cdef is not None else set()
            module_names = {x.name for x in self.tree.body if isinstance(x, (ast.FunctionDef, ast.ClassDef))}
            selfn = fd.args.args[0].arg
            for n in _walk_local(fd):
                if isinstance(n, ast.Call) and isinstance(n.func, ast.Name) and n.func.id in mnames and n.func.id not in module_names and n.func.id not in self._locals(fd) \
                        and n.args and isinstance(n.args[0], ast.Name) and n.args[0].id == selfn:
                    n.func = ast.copy_location(ast.Attribute(value=ast.Name(id=selfn, ctx=ast.Load()), attr=n.func.id, ctx=ast.Load()), n.func)
                    n.args = n.args[1:]
                    ast.fix_missing_locations(n)
        for n in _walk_local(fd):
            if isinstance(n, ast.FunctionDef):
                self._func(n, cls)
        return ast.dump(fd) != before

    def _local_dict_fields(self, fd: ast.FunctionDef) -> None:
        """`d = {'a': E1, 'b': E2}` bound once at the top level of a new-style body, never written through, read only as d['a'] / d['b']
        with each key read at most once: the subscripts are replaced by the value expressions and the binding dropped."""
        for st in list(fd.body):
            if not (isinstance(st, ast.Assign) and len(st.targets) == 1 and isinstance(st.targets[0], ast.Name) and isinstance(st.value, ast.Dict)):
                continue
            name, d = st.targets[0].id, st.value
            if not d.keys or not all(isinstance(k, ast.Constant) and isinstance(k.value, str) for k in d.keys):
                continue
            uses = [n for n in _walk_local(fd) if isinstance(n, ast.Name) and n.id == name]
            subs = [n for n in _walk_local(fd) if isinstance(n, ast.Subscript) and isinstance(n.value, ast.Name) and n.value.id == name]
            if len(uses) != len(subs) + 1:
                continue  # used in another way (passed on, iterated, written)
            if not all(isinstance(s_.ctx, ast.Load) and isinstance(s_.slice, ast.Constant) for s_ in subs):
                continue
            keys = [k.value for k in d.keys]
            reads = [s_.slice.value for s_ in subs]
            if any(r not in keys for r in reads) or any(reads.count(k) > 1 and not _simple(v) for k, v in zip(keys, d.values)):
                continue
            vals = dict(zip(keys, d.values))

            class T(ast.NodeTransformer):
                def visit_Subscript(self, n):
                    if isinstance(n.value, ast.Name) and n.value.id == name and isinstance(n.slice, ast.Constant):
                        return ast.copy_location(copy.deepcopy(vals[n.slice.value]), n)
                    return self.generic_visit(n)
            fd.body = [T().visit(x) for x in fd.body if x is not st]
            ast.fix_missing_locations(fd)
            self.notes.append("local record %s dissolved in %s" % (name, fd.name))

    # ------------------------------------------------------------------ statements
    def _block(self, stmts: List[ast.stmt], fd: ast.FunctionDef, top: bool = False) -> List[ast.stmt]:
        out: List[ast.stmt] = []
        i = 0
        stmts = list(stmts)
        while i < len(stmts):
            st = stmts[i]
            dd = self._dict_dispatch(stmts, i, out, fd, top)
            if dd is not None:
                out.extend(self._block(dd, fd))
                return out
            out.extend(self._stmt(st, fd))
            i += 1
        return out

    def _dict_literal(self, e: ast.AST, prior: List[ast.stmt], fd: ast.FunctionDef) -> Optional[ast.Dict]:
        if isinstance(e, ast.Dict):
            d = e
        elif isinstance(e, ast.Name):
            binds = [s_ for s_ in prior if isinstance(s_, (ast.Assign, ast.AnnAssign)) and isinstance((s_.targets[0] if isinstance(s_, ast.Assign) else s_.target), ast.Name)
                     and (s_.targets[0] if isinstance(s_, ast.Assign) else s_.target).id == e.id]
            if len(binds) != 1 or not isinstance(binds[0].value, ast.Dict):
                if (None, e.id) in self.consts and isinstance(self.consts[(None, e.id)], ast.Dict) and e.id not in self._locals(fd):
                    d = self.consts[(None, e.id)]
                else:
                    return None
            else:
                d = binds[0].value
                # bound once in the whole function and never written through
                n_store = sum(1 for n in _walk_local(fd) if isinstance(n, ast.Name) and n.id == e.id and isinstance(n.ctx, ast.Store))
                if n_store != 1 or e.id in self._written_roots_fn(fd):
                    return None
        else:
            return None
        if not d.keys or len(d.keys) > 16 or not all(isinstance(k, ast.Constant) for k in d.keys) or not all(_simple(v) or isinstance(v, ast.Lambda) for v in d.values):
            return None
        return d

    def _written_roots_fn(self, fd: ast.FunctionDef) -> Set[str]:
        out: Set[str] = set()
        for n in _walk_local(fd):
            tg = []
            if isinstance(n, ast.Assign):
                tg = n.targets
            elif isinstance(n, (ast.AugAssign,)):
                tg = [n.target]
            elif isinstance(n, ast.Call) and isinstance(n.func, ast.Attribute) and n.func.attr in ("update", "setdefault", "pop", "popitem", "clear", "__setitem__"):
                tg = [n.func]
            for t in tg:
                root, sub = t, False
                while isinstance(root, (ast.Attribute, ast.Subscript)):
                    root, sub = root.value, True
                if isinstance(root, ast.Name) and sub:
                    out.add(root.id)
        return out

    def _finder_shape(self, h: ast.FunctionDef):
        """helper of the form `for k, v in TABLE_PARAM: if isinstance(X_PARAM, k): return v` [+ `return None`]
        -> (index of the table parameter, index of the subject parameter) or None"""
        body = _body_wo_doc(h)
        ps = [a.arg for a in h.args.args]
        if not body or not isinstance(body[0], ast.For) or len(body) > 2 or h.args.vararg or h.args.kwarg:
            return None
        if len(body) == 2 and not (isinstance(body[1], ast.Return) and (body[1].value is None or (isinstance(body[1].value, ast.Constant) and body[1].value.value is None))):
            return None
        lp = body[0]
        if lp.orelse or not (isinstance(lp.iter, ast.Name) and lp.iter.id in ps and isinstance(lp.target, ast.Tuple) and len(lp.target.elts) == 2 and all(isinstance(t, ast.Name) for t in lp.target.elts)):
            return None
        k, v = lp.target.elts[0].id, lp.target.elts[1].id
        if not (len(lp.body) == 1 and isinstance(lp.body[0], ast.If) and not lp.body[0].orelse):
            return None
        c = lp.body[0]
        if not (isinstance(c.test, ast.Call) and isinstance(c.test.func, ast.Name) and c.test.func.id == "isinstance" and len(c.test.args) == 2 and isinstance(c.test.args[0], ast.Name) and c.test.args[0].id in ps
                and isinstance(c.test.args[1], ast.Name) and c.test.args[1].id == k):
            return None
        if not (len(c.body) == 1 and isinstance(c.body[0], ast.Return) and isinstance(c.body[0].value, ast.Name) and c.body[0].value.id == v):
            return None
        return ps.index(lp.iter.id), ps.index(c.test.args[0].id)

    def _pair_table(self, e: ast.AST, fd: ast.FunctionDef):
        """a tuple/list literal of 2-tuples (directly or through a new module constant) -> [(class expr, value expr)]"""
        if isinstance(e, ast.Name) and (None, e.id) in self.consts and e.id not in self._locals(fd):
            e = self.consts[(None, e.id)]
        if not isinstance(e, (ast.Tuple, ast.List)) or not e.elts or len(e.elts) > MAX_UNROLL:
            return None
        out = []
        for el in e.elts:
            if not (isinstance(el, (ast.Tuple, ast.List)) and len(el.elts) == 2):
                return None
            out.append((el.elts[0], el.elts[1]))
        return out

    def _first_match(self, v: ast.AST, fd: ast.FunctionDef):
        """`FINDER(TABLE, X)` / `next((h for k, h in TABLE if isinstance(X, k)), None)` -> (subject expr, [(class, value)]) or None"""
        if isinstance(v, ast.Call) and isinstance(v.func, ast.Name) and v.func.id in self.finders and v.func.id not in self._locals(fd) and not v.keywords:
            h = self.finders[v.func.id]
            shape = self._finder_shape(h)
            if shape is not None and len(v.args) == len(h.args.args):
                pairs = self._pair_table(v.args[shape[0]], fd)
                if pairs is not None and _simple(v.args[shape[1]]):
                    return v.args[shape[1]], pairs
        if isinstance(v, ast.Call) and isinstance(v.func, ast.Name) and v.func.id == "next" and len(v.args) == 2 and isinstance(v.args[1], ast.Constant) and v.args[1].value is None \
                and isinstance(v.args[0], ast.GeneratorExp) and len(v.args[0].generators) == 1:
            g = v.args[0].generators[0]
            if isinstance(g.target, ast.Tuple) and len(g.target.elts) == 2 and all(isinstance(t, ast.Name) for t in g.target.elts) and len(g.ifs) == 1 and isinstance(v.args[0].elt, ast.Name) and v.args[0].elt.id == g.target.elts[1].id:
                c = g.ifs[0]
                if isinstance(c, ast.Call) and isinstance(c.func, ast.Name) and c.func.id == "isinstance" and len(c.args) == 2 and isinstance(c.args[1], ast.Name) and c.args[1].id == g.target.elts[0].id and _simple(c.args[0]):
                    pairs = self._pair_table(g.iter, fd)
                    if pairs is not None:
                        return c.args[0], pairs
        return None

    def _dict_dispatch(self, stmts: List[ast.stmt], i: int, prior: List[ast.stmt], fd: ast.FunctionDef, top: bool = False) -> Optional[List[ast.stmt]]:
        """`T = D.get(K)` / `T = D[K]` with D a dict literal of constant keys, followed by the rest of the block:
        rewritten as  if K == k1: <rest with T := v1> elif ... else: <rest with T := None | raise KeyError(K)>."""
        st = stmts[i]
        if not (isinstance(st, (ast.Assign, ast.AnnAssign)) and st.value is not None):
            return None
        tgt = st.targets[0] if isinstance(st, ast.Assign) and len(st.targets) == 1 else (st.target if isinstance(st, ast.AnnAssign) else None)
        if not isinstance(tgt, ast.Name):
            return None
        v = st.value
        key, dexpr, has_default = None, None, False
        outer_cond = None
        if isinstance(v, ast.IfExp) and isinstance(v.orelse, ast.Constant) and v.orelse.value is None:
            # `T = D.get(K) if COND else None`
            outer_cond, v = v.test, v.body
        if isinstance(v, ast.Call) and isinstance(v.func, ast.Attribute) and v.func.attr == "get" and len(v.args) == 1 and not v.keywords:
            key, dexpr, has_default = v.args[0], v.func.value, True
        elif isinstance(v, ast.Subscript) and isinstance(v.ctx, ast.Load):
            key, dexpr = v.slice, v.value
        fm = self._first_match(v, fd) if key is None else None
        if fm is not None:
            subject, pairs = fm
            has_default = True
            tests = [ast.Call(func=ast.Name(id="isinstance", ctx=ast.Load()), args=[copy.deepcopy(subject), copy.deepcopy(k)], keywords=[]) for k, _ in pairs]
            values = [val for _, val in pairs]
            key = subject
        else:
            if key is None or not _simple(key) or isinstance(key, ast.Constant):
                return None
            d = self._dict_literal(dexpr, prior, fd)
            if d is None:
                return None
            tests = [ast.Compare(left=copy.deepcopy(key), ops=[ast.Eq()], comparators=[copy.deepcopy(k)]) for k in d.keys]
            values = list(d.values)
        rest = stmts[i + 1:]
        if not rest or len(rest) > 12:
            return None
        # T must not be rebound later
        if sum(1 for n in _walk_local(fd) if isinstance(n, ast.Name) and n.id == tgt.id and isinstance(n.ctx, ast.Store)) != 1:
            return None
        # the rest must end the block's control flow (so that duplicating it is the whole continuation)
        if not isinstance(rest[-1], (ast.Return, ast.Raise)) and not top:
            return None
        chain: Optional[ast.If] = None
        branches = []
        for test, val in zip(tests, values):
            body = [_Rename({tgt.id: val}, {}).visit(copy.deepcopy(s_)) for s_ in rest]
            branches.append((test, body))
        if has_default:
            tail = [_Rename({tgt.id: ast.Constant(value=None)}, {}).visit(copy.deepcopy(s_)) for s_ in rest]
        else:
            tail = [ast.Raise(exc=ast.Call(func=ast.Name(id="KeyError", ctx=ast.Load()), args=[copy.deepcopy(key)], keywords=[]), cause=None)]
        node = None
        for test, body in reversed(branches):
            node = ast.If(test=test, body=body, orelse=([node] if node is not None else tail))
        if outer_cond is not None:
            if not has_default:
                return None
            node = ast.If(test=copy.deepcopy(outer_cond), body=[node], orelse=copy.deepcopy(tail))
        for n in ast.walk(node):
            if not hasattr(n, "lineno"):
                ast.copy_location(n, st)
        ast.fix_missing_locations(node)
        self.notes.append("dict dispatch on %s turned into an if-chain in %s" % (ast.unparse(key), fd.name))
        return [self._fold(node)]

    def _fold(self, node: ast.AST) -> ast.AST:
        """constant-fold `X is None` / `X is not None` for X a lambda, a method/function reference or a constant,
        and prune `if True/False` made by it"""
        fn_names = {st_.name for st_ in self.tree.body if isinstance(st_, ast.FunctionDef)}

        class F(ast.NodeTransformer):
            def visit_Compare(self, n):
                self.generic_visit(n)
                if len(n.ops) == 1 and isinstance(n.ops[0], (ast.Is, ast.IsNot)) and isinstance(n.comparators[0], ast.Constant) and n.comparators[0].value is None:
                    l = n.left
                    val = None
                    if isinstance(l, ast.Constant):
                        val = l.value is None
                    elif isinstance(l, (ast.Lambda, ast.Attribute)) or (isinstance(l, ast.Name) and l.id in fn_names):
                        val = False
                    if val is not None:
                        return ast.copy_location(ast.Constant(value=(val if isinstance(n.ops[0], ast.Is) else not val)), n)
                return n

            def visit_If(self, n):
                self.generic_visit(n)
                return n
        node = F().visit(node)

        def prune(stmts):
            out = []
            for s_ in stmts:
                for fld in ("body", "orelse", "finalbody"):
                    b = getattr(s_, fld, None)
                    if isinstance(b, list) and b and isinstance(b[0], ast.stmt):
                        setattr(s_, fld, prune(b))
                if isinstance(s_, ast.If) and isinstance(s_.test, ast.Constant) and isinstance(s_.test.value, bool):
                    out.extend(s_.body if s_.test.value else s_.orelse)
                    if (s_.body if s_.test.value else s_.orelse) and isinstance((s_.body if s_.test.value else s_.orelse)[-1], (ast.Return, ast.Raise)):
                        break
                else:
                    out.append(s_)
                    if isinstance(s_, (ast.Return, ast.Raise)):
                        break
            return out or [ast.Pass()]
        if isinstance(node, ast.If):
            wrapper = ast.Module(body=[node], type_ignores=[])
            wrapper.body = prune(wrapper.body)
            return wrapper.body[0] if len(wrapper.body) == 1 else ast.If(test=ast.Constant(value=True), body=wrapper.body, orelse=[])
        return node

    def _stmt(self, st: ast.stmt, fd: ast.FunctionDef) -> List[ast.stmt]:
        if isinstance(st, (ast.FunctionDef, ast.AsyncFunctionDef, ast.ClassDef)):
            return [st]
        # N2/N4 on expressions of this statement (not inside nested blocks: handled by recursion below)
        st = self._rewrite_exprs(st, fd)
        # recurse into blocks
        for fld in ("body", "orelse", "finalbody"):
            blk = getattr(st, fld, None)
            if isinstance(blk, list) and blk and isinstance(blk[0], ast.stmt):
                setattr(st, fld, self._block(blk, fd))
        if isinstance(st, ast.Try):
            for h in st.handlers:
                h.body = self._block(h.body, fd)
        # N9 generator fusion: `for x in G(args): BODY`, G a new plain generator
        if isinstance(st, ast.For) and not st.orelse and isinstance(st.iter, ast.Call) and not any(isinstance(n, (ast.Break, ast.Continue)) for b in st.body for n in ast.walk(b)):
            fz = self._fuse(st, fd)
            if fz is not None:
                return self._block(fz, fd)
        # N3 unrolling
        if isinstance(st, ast.For) and not st.orelse:
            un = self._unroll(st, fd)
            if un is not None:
                return self._block(un, fd)
        # N1 statement-level inlining
        pre: List[ast.stmt] = []
        if isinstance(st, (ast.Assign, ast.AnnAssign, ast.AugAssign, ast.Return, ast.Expr)) and getattr(st, "value", None) is not None:
            v = st.value
            # `x = H(...).m().n()`: the helper call is evaluated first; inline it and keep the chain on its result
            head, parent = v, None
            while isinstance(head, ast.Call) and isinstance(head.func, ast.Attribute) and self._helper_of(head, fd) is None:
                parent, head = head.func, head.func.value
            if parent is not None and self._helper_of(head, fd) is not None:
                stmts, result = self._inline(head, self._helper_of(head, fd), fd)
                if stmts is not None and result is not None:
                    parent.value = result
                    return self._block(stmts, fd) + [st]
            h = self._helper_of(v, fd)
            if h is not None:
                stmts, result = self._inline(v, h, fd)
                if stmts is not None:
                    st.value = result if result is not None else ast.Constant(value=None)
                    if isinstance(st, ast.Expr) and result is None:
                        return stmts
                    if isinstance(st, ast.Expr):
                        return stmts + [st]
                    return stmts + [st]
            elif isinstance(v, ast.ListComp) and len(v.generators) == 1 and not v.generators[0].is_async and self._helper_of(v.elt, fd) is not None \
                    and isinstance(st, (ast.Assign, ast.AnnAssign)) and isinstance((st.targets[0] if isinstance(st, ast.Assign) else st.target), ast.Name) \
                    and len(_body_wo_doc(self._helper_of(v.elt, fd)[1])) > 1:
                g0 = v.generators[0]
                tname = (st.targets[0] if isinstance(st, ast.Assign) else st.target).id
                stmts, result = self._inline(v.elt, self._helper_of(v.elt, fd), fd)
                if stmts is not None and result is not None:
                    app = ast.Expr(value=ast.Call(func=ast.Attribute(value=ast.Name(id=tname, ctx=ast.Load()), attr="append", ctx=ast.Load()), args=[result], keywords=[]))
                    body = stmts + [app]
                    for c in reversed(g0.ifs):
                        body = [ast.If(test=c, body=body, orelse=[])]
                    loop = ast.For(target=g0.target, iter=g0.iter, body=body, orelse=[])
                    st.value = ast.List(elts=[], ctx=ast.Load())
                    out_ = [st, loop]
                    for o in out_:
                        ast.copy_location(o, v)
                    self.notes.append("comprehension over helper %s turned into a loop" % self._helper_of(v.elt, fd)[1].name if self._helper_of(v.elt, fd) else "")
                    return [st] + self._block([loop], fd)
            elif isinstance(v, (ast.ListComp, ast.SetComp, ast.DictComp, ast.GeneratorExp)) and v.generators:
                g0 = v.generators[0]
                h = self._helper_of(g0.iter, fd)
                if h is not None:
                    stmts, result = self._inline(g0.iter, h, fd)
                    if stmts is not None and result is not None:
                        g0.iter = result
                        return stmts + [st]
        if isinstance(st, ast.For):
            h = self._helper_of(st.iter, fd)
            if h is not None:
                stmts, result = self._inline(st.iter, h, fd)
                if stmts is not None and result is not None:
                    st.iter = result
                    return stmts + [st]
        return pre + [st]

    # ------------------------------------------------------------------ expressions
    def _rewrite_exprs(self, st: ast.stmt, fd: ast.FunctionDef) -> ast.stmt:
        norm = self

        class T(ast.NodeTransformer):
            def generic_visit(self, node):
                # do not descend into nested statement blocks: _stmt recurses into them itself
                for field, old in ast.iter_fields(node):
                    if isinstance(old, list):
                        if old and isinstance(old[0], ast.stmt) and node is st:
                            continue
                        new = []
                        for v in old:
                            if isinstance(v, ast.AST):
                                v = self.visit(v)
                                if v is None:
                                    continue
                            new.append(v)
                        old[:] = new
                    elif isinstance(old, ast.AST):
                        if isinstance(old, ast.stmt) and node is st:
                            continue
                        new = self.visit(old)
                        setattr(node, field, new)
                return node

            def visit_FunctionDef(self, n):
                return n

            def visit_ClassDef(self, n):
                return n

            def visit_Name(self, n):
                if isinstance(n.ctx, ast.Load) and (None, n.id) in norm.consts and n.id not in norm._locals(fd):
                    norm.notes.append("constant %s" % n.id)
                    return copy.deepcopy(norm.consts[(None, n.id)])
                return n

            def visit_Attribute(self, n):
                self.generic_visit(n)
                if isinstance(n.ctx, ast.Load) and isinstance(n.value, ast.Name) and n.value.id in ("self", "cls", norm._cls or "?") and (norm._cls, n.attr) in norm.consts:
                    norm.notes.append("class constant %s" % n.attr)
                    return copy.deepcopy(norm.consts[(norm._cls, n.attr)])
                return n

            def visit_Call(self, n):
                self.generic_visit(n)
                # getattr(x, "name") -> x.name
                if isinstance(n.func, ast.Name) and n.func.id == "getattr" and len(n.args) == 2 and isinstance(n.args[1], ast.Constant) and isinstance(n.args[1].value, str) and n.args[1].value.isidentifier():
                    return ast.copy_location(ast.Attribute(value=n.args[0], attr=n.args[1].value, ctx=ast.Load()), n)
                # (lambda ...)(...)
                if isinstance(n.func, ast.Lambda):
                    r = norm._beta_lambda(n)
                    if r is not None:
                        return r
                # single-expression helper
                h = norm._helper_of(n, fd)
                if h is not None:
                    body = _body_wo_doc(h[1])
                    if len(body) == 1 and isinstance(body[0], ast.Return) and body[0].value is not None:
                        r = norm._beta_helper(n, h)
                        if r is not None:
                            return r
                return n

        return T().visit(st)

    def _locals(self, fd: ast.FunctionDef) -> Set[str]:
        c = getattr(fd, "_fcpv_locals", None)
        if c is None:
            c = _bound_names(fd)
            fd._fcpv_locals = c
        return c

    def _helper_of(self, e: ast.AST, fd: ast.FunctionDef):
        """-> (receiver expr or None, helper FunctionDef) when `e` is a call to an inlinable new helper"""
        if not isinstance(e, ast.Call):
            return None
        f = e.func
        if isinstance(f, ast.Name) and (None, f.id) in self.helpers and f.id not in self._locals(fd):
            h = self.helpers[(None, f.id)]
            return (None, h) if h is not fd else None
        if isinstance(f, ast.Attribute) and isinstance(f.value, ast.Name) and self._cls is not None and (self._cls, f.attr) in self.helpers:
            h = self.helpers[(self._cls, f.attr)]
            if h is fd:
                return None
            static = any(isinstance(d, ast.Name) and d.id == "staticmethod" for d in h.decorator_list)
            if f.value.id in ("self", "cls") or f.value.id == self._cls:
                return (None if static or f.value.id == self._cls and static else f.value, h)
        # name-mangled private method: self._C__name
        if isinstance(f, ast.Attribute) and isinstance(f.value, ast.Name) and self._cls is not None and f.attr.startswith("_%s__" % self._cls):
            key = (self._cls, f.attr[len(self._cls) + 1:])
            if key in self.helpers and self.helpers[key] is not fd and f.value.id in ("self", "cls"):
                return (f.value, self.helpers[key])
        return None

    def _bind_args(self, call: ast.Call, recv, h: ast.FunctionDef):
        """-> list of (param name, arg expr) or None"""
        a = h.args
        params = [p.arg for p in list(a.posonlyargs) + list(a.args)]
        defaults = [None] * (len(params) - len(a.defaults)) + list(a.defaults)
        kwonly = [(p.arg, d) for p, d in zip(a.kwonlyargs, a.kw_defaults)]
        bound: Dict[str, ast.AST] = {}
        args = list(call.args)
        if any(isinstance(x, ast.Starred) for x in args) or any(k.arg is None for k in call.keywords):
            return None
        self._extra_kw = []
        if recv is not None:
            if not params:
                return None
            bound[params[0]] = recv
            rest = params[1:]
            rdefs = defaults[1:]
        else:
            rest, rdefs = params, defaults
        if len(args) > len(rest):
            return None
        for p, x in zip(rest, args):
            bound[p] = x
        for k in call.keywords:
            if k.arg in bound:
                return None
            if k.arg not in rest and k.arg not in [n for n, _ in kwonly]:
                if a.kwarg is None:
                    return None
                self._extra_kw.append(k)
                continue
            bound[k.arg] = k.value
        for p, d in list(zip(rest, rdefs)) + kwonly:
            if p not in bound:
                if d is None:
                    return None
                bound[p] = d
        order = ([params[0]] if recv is not None else []) + rest + [n for n, _ in kwonly]
        return [(p, bound[p]) for p in order]

    def _beta_lambda(self, call: ast.Call) -> Optional[ast.AST]:
        lam = call.func
        a = lam.args
        if a.vararg or a.kwarg or a.kwonlyargs or call.keywords or any(isinstance(x, ast.Starred) for x in call.args):
            return None
        ps = [p.arg for p in list(a.posonlyargs) + list(a.args)]
        defaults = [None] * (len(ps) - len(a.defaults)) + list(a.defaults)
        if len(call.args) > len(ps):
            return None
        mapping = {}
        for i, p in enumerate(ps):
            x = call.args[i] if i < len(call.args) else defaults[i]
            if x is None:
                return None
            if not _simple(x) and _uses([lam.body], p) > 1:
                return None
            mapping[p] = x
        self.notes.append("beta-reduced a lambda application")
        return _Rename(mapping, {}).visit(copy.deepcopy(lam.body))

    def _beta_helper(self, call: ast.Call, h) -> Optional[ast.AST]:
        recv, fdh = h
        b = self._bind_args(call, recv, fdh)
        if b is None:
            return None
        expr = _body_wo_doc(fdh)[0].value
        if fdh.args.kwarg is not None:
            kwn = fdh.args.kwarg.arg
            expr = copy.deepcopy(expr)
            extra = list(getattr(self, "_extra_kw", []))
            for n_ in ast.walk(expr):
                if isinstance(n_, ast.Call):
                    newk = []
                    for k_ in n_.keywords:
                        if k_.arg is None and isinstance(k_.value, ast.Name) and k_.value.id == kwn:
                            newk.extend(copy.deepcopy(extra))
                        else:
                            newk.append(k_)
                    n_.keywords = newk
        mapping = {}
        for p, x in b:
            if _stored(fdh, p):
                return None
            if not _simple(x) and _uses([expr], p) > 1:
                return None
            mapping[p] = x
        self.counter += 1
        # locals of a single-expression helper: comprehension / lambda variables only
        rename = {n: "%s__i%d" % (n, self.counter) for n in _bound_names(fdh) if n not in mapping}
        self.notes.append("inlined %s (expression)" % fdh.name)
        return _Rename(mapping, rename).visit(copy.deepcopy(expr))

    def _inline(self, call: ast.Call, h, fd: ast.FunctionDef):
        """-> (statements, result expression or None) ; (None, None) when not possible"""
        recv, fdh = h
        b = self._bind_args(call, recv, fdh)
        if b is None:
            return None, None
        self.counter += 1
        sfx = "__i%d" % self.counter
        body = copy.deepcopy(_body_wo_doc(fdh))
        mapping: Dict[str, ast.AST] = {}
        pre: List[ast.stmt] = []
        rename = {n: n + sfx for n in _bound_names(fdh)}
        for p, x in b:
            if _simple(x) and not _stored(fdh, p):
                mapping[p] = x
                rename.pop(p, None)
            else:
                pre.append(ast.Assign(targets=[ast.Name(id=p + sfx, ctx=ast.Store())], value=x, lineno=call.lineno, col_offset=call.col_offset))
        if fdh.args.kwarg is not None:
            kwn = fdh.args.kwarg.arg
            extra = list(getattr(self, "_extra_kw", []))
            for s_ in body:
                for n_ in ast.walk(s_):
                    if isinstance(n_, ast.Call):
                        newk = []
                        for k_ in n_.keywords:
                            if k_.arg is None and isinstance(k_.value, ast.Name) and k_.value.id == kwn:
                                newk.extend(copy.deepcopy(extra))
                            else:
                                newk.append(k_)
                        n_.keywords = newk
            rename.pop(kwn, None)
        tr = _Rename(mapping, rename)
        body = [tr.visit(s) for s in body]
        result = None
        if getattr(fdh, "_fcpv_multi", False):
            res = "res" + sfx

            class R(ast.NodeTransformer):
                def visit_FunctionDef(self, n):
                    return n

                def visit_Lambda(self, n):
                    return n

                def visit_Return(self, n):
                    a = ast.Assign(targets=[ast.Name(id=res, ctx=ast.Store())], value=n.value if n.value is not None else ast.Constant(value=None))
                    b = ast.Break()
                    ast.copy_location(a, n)
                    ast.copy_location(b, n)
                    return [a, b]
            wrapper = ast.Module(body=body, type_ignores=[])
            body = R().visit(wrapper).body
            def terminates(ss) -> bool:
                if not ss:
                    return False
                l = ss[-1]
                if isinstance(l, (ast.Break, ast.Raise)):
                    return True
                if isinstance(l, ast.If):
                    return terminates(l.body) and terminates(l.orelse)
                if isinstance(l, ast.Try):
                    return (terminates(l.body) or terminates(l.orelse)) and all(terminates(h_.body) for h_ in l.handlers)
                return False
            if not terminates(body):
                body = body + [ast.Assign(targets=[ast.Name(id=res, ctx=ast.Store())], value=ast.Constant(value=None)), ast.Break()]
            flat = _structure_once(body)
            if flat is not None:
                for s_ in flat + pre:
                    if not hasattr(s_, "lineno"):
                        ast.copy_location(s_, call)
                    ast.fix_missing_locations(s_)
                self.notes.append("inlined %s into %s (several exits, as if/else)" % (fdh.name, fd.name))
                return pre + flat, ast.copy_location(ast.Name(id=res, ctx=ast.Load()), call)
            loop = ast.While(test=ast.Constant(value=True), body=body, orelse=[])
            for s_ in [loop] + pre:
                ast.copy_location(s_, call)
            ast.fix_missing_locations(loop)
            self.notes.append("inlined %s into %s (several exits)" % (fdh.name, fd.name))
            return pre + [loop], ast.copy_location(ast.Name(id=res, ctx=ast.Load()), call)
        if body and isinstance(body[-1], ast.Return):
            result = body[-1].value
            body = body[:-1]
        self.notes.append("inlined %s into %s" % (fdh.name, fd.name))
        for s in pre + body:
            ast.copy_location(s, call) if not hasattr(s, "lineno") else None
        return pre + body, result

    def _fuse(self, st: ast.For, fd: ast.FunctionDef) -> Optional[List[ast.stmt]]:
        f = st.iter.func
        g, recv = None, None
        if isinstance(f, ast.Name) and (None, f.id) in self.gens and f.id not in self._locals(fd):
            g = self.gens[(None, f.id)]
        elif isinstance(f, ast.Attribute) and isinstance(f.value, ast.Name) and f.value.id in ("self", "cls") and self._cls is not None and (self._cls, f.attr) in self.gens:
            g = self.gens[(self._cls, f.attr)]
            if not any(isinstance(d, ast.Name) and d.id == "staticmethod" for d in g.decorator_list):
                recv = f.value
        if g is None or g is fd:
            return None
        b = self._bind_args(st.iter, recv, g)
        if b is None:
            return None
        self.counter += 1
        sfx = "__g%d" % self.counter
        mapping: Dict[str, ast.AST] = {}
        pre: List[ast.stmt] = []
        rename = {n: n + sfx for n in _bound_names(g)}
        for p, x in b:
            if _simple(x) and not _stored(g, p):
                mapping[p] = x
                rename.pop(p, None)
            else:
                pre.append(ast.copy_location(ast.Assign(targets=[ast.Name(id=p + sfx, ctx=ast.Store())], value=x), st))
        body = [_Rename(mapping, rename).visit(s_) for s_ in copy.deepcopy(_body_wo_doc(g))]
        loop_body, target = st.body, st.target

        class Y(ast.NodeTransformer):
            def visit_Expr(self, n):
                if isinstance(n.value, ast.Yield):
                    val = n.value.value if n.value.value is not None else ast.Constant(value=None)
                    tnames = [t for t in (target.elts if isinstance(target, (ast.Tuple, ast.List)) else [target])]
                    vals = list(val.elts) if isinstance(target, (ast.Tuple, ast.List)) and isinstance(val, (ast.Tuple, ast.List)) and len(val.elts) == len(tnames) else ([val] if not isinstance(target, (ast.Tuple, ast.List)) else None)
                    stored = {x.id for b_ in loop_body for x in ast.walk(b_) if isinstance(x, ast.Name) and isinstance(x.ctx, ast.Store)}
                    if vals is not None and all(isinstance(t, ast.Name) for t in tnames) and all(_simple(v_) for v_ in vals) and not ({t.id for t in tnames} & stored):
                        m_ = {t.id: v_ for t, v_ in zip(tnames, vals)}
                        return [_Rename(m_, {}).visit(copy.deepcopy(b_)) for b_ in loop_body]
                    a = ast.copy_location(ast.Assign(targets=[copy.deepcopy(target)], value=val), n)
                    return [a] + copy.deepcopy(loop_body)
                return n
        wrapper = ast.Module(body=body, type_ignores=[])
        out = pre + Y().visit(wrapper).body
        for s_ in out:
            ast.fix_missing_locations(s_)
        self.notes.append("fused generator %s into the loop consuming it in %s" % (g.name, fd.name))
        return out

    # ------------------------------------------------------------------ N3
    def _unroll(self, st: ast.For, fd: ast.FunctionDef) -> Optional[List[ast.stmt]]:
        it = st.iter
        if isinstance(it, ast.Call) and isinstance(it.func, ast.Attribute) and it.func.attr in ("items", "keys", "values") and not it.args and isinstance(it.func.value, ast.Dict) \
                and all(k is not None for k in it.func.value.keys):
            d = it.func.value
            if it.func.attr == "items":
                it = ast.Tuple(elts=[ast.Tuple(elts=[k, v], ctx=ast.Load()) for k, v in zip(d.keys, d.values)], ctx=ast.Load())
            elif it.func.attr == "keys":
                it = ast.Tuple(elts=list(d.keys), ctx=ast.Load())
            else:
                it = ast.Tuple(elts=list(d.values), ctx=ast.Load())
        elif isinstance(it, ast.Dict) and all(k is not None for k in it.keys):
            it = ast.Tuple(elts=list(it.keys), ctx=ast.Load())
        if isinstance(it, ast.Name):
            # a local bound exactly once to a tuple/list literal, never written through or re-bound
            binds = [n for n in _walk_local(fd) if isinstance(n, (ast.Assign, ast.AnnAssign)) and n.value is not None and isinstance((n.targets[0] if isinstance(n, ast.Assign) else n.target), ast.Name)
                     and (n.targets[0] if isinstance(n, ast.Assign) else n.target).id == it.id]
            n_store = sum(1 for n in _walk_local(fd) if isinstance(n, ast.Name) and n.id == it.id and isinstance(n.ctx, (ast.Store, ast.Del)))
            if len(binds) == 1 and n_store == 1 and isinstance(binds[0].value, (ast.Tuple, ast.List)) and it.id not in self._written_roots_fn(fd) \
                    and not any(isinstance(n, ast.Call) and isinstance(n.func, ast.Attribute) and isinstance(n.func.value, ast.Name) and n.func.value.id == it.id for n in _walk_local(fd)):
                it = binds[0].value
        if not isinstance(it, (ast.Tuple, ast.List)) or not it.elts or len(it.elts) > MAX_UNROLL:
            return None
        tgt = st.target
        if any(isinstance(n, (ast.Break, ast.Continue)) for b in st.body for n in ast.walk(b)):
            return None
        out: List[ast.stmt] = []
        for el in it.elts:
            mapping: Dict[str, ast.AST] = {}
            if isinstance(tgt, ast.Name):
                if not _simple(el) and not isinstance(el, (ast.Tuple, ast.Constant)):
                    return None
                mapping[tgt.id] = el
            elif isinstance(tgt, (ast.Tuple, ast.List)) and isinstance(el, (ast.Tuple, ast.List)) and len(el.elts) == len(tgt.elts) and all(isinstance(t, ast.Name) for t in tgt.elts):
                for t, x in zip(tgt.elts, el.elts):
                    if not (_simple(x) or isinstance(x, (ast.Constant, ast.Lambda)) or (isinstance(x, (ast.Tuple, ast.List)) and all(_simple(y) for y in x.elts)) or _uses(st.body, t.id) <= 1):
                        return None
                    mapping[t.id] = x
            else:
                return None
            # the loop variables must not be assigned in the body
            for b in st.body:
                for n in ast.walk(b):
                    if isinstance(n, ast.Name) and isinstance(n.ctx, ast.Store) and n.id in mapping:
                        return None
            for b in st.body:
                nb = _Rename(mapping, {}).visit(copy.deepcopy(b))
                out.append(nb)
        self.notes.append("unrolled a loop over a %d-element table in %s" % (len(it.elts), fd.name))
        # re-run expression rewriting on the unrolled statements (lambda applications appear now)
        return out


def normalise_module(tree: ast.Module, modname: str, known_funcs: Set[str], known_names: Set[str], external_refs: Optional[Set[str]] = None, arity: Optional[Dict[str, int]] = None) -> Tuple[ast.Module, List[str]]:
    n = Normaliser(tree, modname, known_funcs, known_names)
    n.external_refs = external_refs or set()
    n.arity = arity or {}
    try:
        t = n.run()
    except RecursionError:
        return tree, ["normalisation abandoned (recursion)"]
    return t, n.notes
