"""Lazily built analysis context shared by the rule modules."""

from __future__ import annotations

import ast
import os
from typing import Dict, Optional

from .front_py import Program, FuncInfo, AnalysisError
from .types_lite import Types
from .callgraph import CallGraph
from .cfg import CFG


class Engine:
    def __init__(self, root: str, tier: str = "quick"):
        self.root = os.path.abspath(root)
        self.tier = tier
        self._prog: Optional[Program] = None
        self._T: Optional[Types] = None
        self._cg: Optional[CallGraph] = None
        self._cfgs: Dict[str, CFG] = {}

    @property
    def prog(self) -> Program:
        if self._prog is None:
            self._prog = Program(self.root)
        return self._prog

    @property
    def T(self) -> Types:
        if self._T is None:
            self._T = Types(self.prog)
        return self._T

    @property
    def cg(self) -> CallGraph:
        if self._cg is None:
            self._cg = CallGraph(self.prog, self.T)
        return self._cg

    def cfg(self, f: FuncInfo) -> CFG:
        if f.qual not in self._cfgs:
            self._cfgs[f.qual] = CFG(f.node)
        return self._cfgs[f.qual]

    def stats(self, rep) -> None:
        rep.extra["units"] = len(self.prog.modules)
        rep.extra["functions"] = len(self.prog.functions)
        rep.extra["call_sites"] = self.cg.stats["calls"] if self._cg is not None else None
        rep.extra["unit_files"] = sorted(self.prog.unit_files)
        if self._cg is not None:
            rep.extra["callgraph"] = dict(self.cg.stats)

    def path(self, *parts: str) -> str:
        return os.path.join(self.root, *parts)

    def read(self, *parts: str) -> str:
        p = self.path(*parts)
        if not os.path.exists(p):
            raise AnalysisError("anchor vanished: file %s not found" % os.path.join(*parts))
        with open(p, encoding="utf-8") as f:
            return f.read()
