"""Abstract instantiation of a Jinja template into one parseable C unit: template text verbatim, every
{{expr}} replaced by a placeholder (identifier / literal / macro by the expression's role), every
{% for %} unrolled once, {% if %} resolved by a fixed policy table.  The template is never rendered."""

from __future__ import annotations

import re
from typing import Callable, Dict, List, Optional

from jinja2 import nodes as J

from .front_jinja import JTemplate

NUMERIC_ATTRS = {"frame_id", "dlc", "start_bit", "bit_length", "scale", "offset", "multiplexer_count", "value"}


def placeholder(src: str) -> str:
    s = src.strip()
    if "loop.index0" in s:
        return "J_IDX"
    if re.search(r"\|\s*length", s):
        return "J_NMSG"
    if s.endswith(".period"):
        return "J_PERIOD"
    last = s.split("|")[0].strip().split(".")[-1]
    if last in NUMERIC_ATTRS:
        return "1"
    if last in ("scalar_type", "data_type"):
        return "uint8_t"
    if last == "is_big_endian_s":
        return "false"
    ident = re.sub(r"[^A-Za-z0-9_]+", "_", s).strip("_")
    return "J_" + ident


DEFAULT_POLICY = {
    "not is_global_device": True,
    "is_global_device": False,
    "include_global": False,
    "messages | length > 0": True,
    "signal.multiplexer_count <= 1": True,
    "signal.multiplexer_count > 1": False,
    "message.is_multiplexer": False,
    "signal.is_multiplexer": False,
    "not loop.last": False,
    "signal.name == message.multiplexer_signal": False,
}


def pascal(n: str) -> str:
    """the generator's to_pascal_case as documented: words split at '_', each capitalised (rest lower-cased)"""
    return "".join(w[:1].upper() + w[1:].lower() for w in n.split("_"))


class Model:
    """A model for instantiating loops over a known population: `lists` maps the source text of an iterable (filters
    stripped, `{% set %}` aliases followed) to a list of elements (dicts attribute -> text/int, in DECLARATION order);
    `calls` maps a template-global name to the element key its result is taken from when it is applied to an attribute
    of an element (e.g. to_wrapper_cpp_type(fcp, signal.type) -> element['cpp']); `values` maps expression source to text.
    Filters understood on model lists: sort(attribute=A[, reverse=true]) (ascending by the element's A, as jinja2 specifies),
    reverse, list.  Anything else falls back to the single opaque unrolling."""

    def __init__(self, lists: Dict[str, List[Dict[str, object]]], calls: Optional[Dict[str, str]] = None, values: Optional[Dict[str, str]] = None, text_filters: Optional[Dict[str, Callable[[str], str]]] = None):
        self.lists, self.calls, self.values = lists, calls or {}, values or {}
        self.text_filters = text_filters or {"to_pascal_case": pascal, "upper": str.upper, "lower": str.lower}
        self.iter_hook: Optional[Callable[[object], Optional[List[Dict[str, object]]]]] = None  # elements for an iterable the lists do not name (e.g. a call of a template global)


def instantiate(t: JTemplate, policy: Optional[Dict[str, bool]] = None, model: Optional[Model] = None) -> str:
    """Abstract instance of a template.  `{% set x = e %}` substitutes e for x in later expressions (single
    assignment in scope); `{% macro m(a) %}...{% endmacro %}` bodies are expanded at `{{ m(x) }}` with a := x.
    With a `model`, loops over a modelled population are unrolled over its elements (see Model)."""
    pol = dict(DEFAULT_POLICY)
    if policy:
        pol.update(policy)
    out: List[str] = []
    bound: Dict[str, Dict[str, object]] = {}  # loop variable -> model element (dynamic scope of the expansion)
    env_nodes: Dict[str, object] = {}  # set-variable -> the expression node it was set to
    loopinfo: List[Dict[str, object]] = []

    def model_elements(it, env):
        """elements of a modelled iterable in iteration order, or None"""
        if model is None:
            return None
        e = it
        ops = []
        hops = 0
        while True:
            if isinstance(e, J.Filter):
                ops.append(e)
                e = e.node
                continue
            if isinstance(e, J.Name) and e.name in env_nodes and hops < 4:
                # a set-variable: continue with the expression it was set to (filters written in the set included)
                e = env_nodes[e.name]
                hops += 1
                continue
            base = subst_src(e, env)
            if base not in model.lists and JTemplate.src(e) in model.lists:
                base = JTemplate.src(e)
            break
        if base not in model.lists:
            hooked = model.iter_hook(e) if model.iter_hook is not None else None
            if hooked is None:
                return None
            els = list(hooked)
        else:
            els = list(model.lists[base])
        for f in reversed(ops):
            if f.name == "list":
                continue
            if f.name == "reverse":
                els.reverse()
                continue
            if f.name == "sort":
                attr, rev = None, False
                for k in f.kwargs:
                    if k.key == "attribute" and isinstance(k.value, J.Const):
                        attr = k.value.value
                    if k.key == "reverse" and isinstance(k.value, J.Const):
                        rev = bool(k.value.value)
                if f.args and isinstance(f.args[0], J.Const):
                    rev = bool(f.args[0].value)
                if attr is None or any(attr not in el for el in els):
                    return None
                els = sorted(els, key=lambda el: el[attr], reverse=rev)
                continue
            return None
        return els

    def model_text(c, env):
        """concrete text of an expression over model elements, or None"""
        if model is None:
            return None
        if isinstance(c, J.Const):
            return str(c.value)
        if isinstance(c, J.Getattr) and isinstance(c.node, J.Name) and c.node.name in bound and c.attr in bound[c.node.name]:
            return str(bound[c.node.name][c.attr])
        if isinstance(c, J.Getattr) and isinstance(c.node, J.Name) and c.node.name == "loop" and loopinfo and c.attr in loopinfo[-1]:
            return str(loopinfo[-1][c.attr])
        if isinstance(c, J.Filter) and c.name in model.text_filters and not c.args and not c.kwargs:
            inner = model_text(c.node, env)
            return model.text_filters[c.name](inner) if inner is not None else None
        if isinstance(c, J.Call) and isinstance(c.node, J.Name) and c.node.name in model.calls:
            for a in c.args:
                if isinstance(a, J.Getattr) and isinstance(a.node, J.Name) and a.node.name in bound:
                    key = model.calls[c.node.name]
                    if key in bound[a.node.name]:
                        return str(bound[a.node.name][key])
        src = subst_src(c, env)
        if src in model.values:
            return model.values[src]
        return None

    def model_test(test, env):
        """truth of a test over loop metadata of a modelled loop, or None"""
        if model is None or not loopinfo:
            return None
        neg = False
        e = test
        while isinstance(e, J.Not):
            neg, e = not neg, e.node
        if isinstance(e, J.Getattr) and isinstance(e.node, J.Name) and e.node.name == "loop" and e.attr in ("last", "first"):
            v = bool(loopinfo[-1][e.attr])
            return (not v) if neg else v
        return None
    macros: Dict[str, J.Macro] = {}
    for n in t.ast.find_all(J.Macro):
        macros[n.name] = n

    def subst_src(e, env: Dict[str, str]) -> str:
        """source text of an expression with set-variables / macro parameters replaced"""
        src = JTemplate.src(e)
        if not env:
            return src
        # replace whole identifiers that are not attribute names
        def rep(m):
            nm = m.group(0)
            return "(%s)" % env[nm] if nm in env and not re.match(r"^\w+$", env[nm]) else env.get(nm, nm)
        return re.sub(r"(?<![\w.])[A-Za-z_]\w*", rep, src)

    def emit_nodes(nodes, env):
        for n in nodes:
            emit(n, env)

    def resolve_cond(c, env, depth=0):
        """`a if test else b` with a test the policy table decides -> the chosen branch; set-variables are followed"""
        if depth > 4:
            return c
        if isinstance(c, J.Name) and c.name in env_nodes:
            r = resolve_cond(env_nodes[c.name], env, depth + 1)
            return r if r is not env_nodes[c.name] or isinstance(r, J.Const) else c
        if isinstance(c, J.CondExpr):
            key = subst_src(c.test, env)
            v = pol.get(key, pol.get(JTemplate.src(c.test)))
            if v is None and isinstance(c.test, J.Compare):
                v = False  # same default as for {% if %}: an undecided test takes the else branch
            if v is not None:
                return resolve_cond(c.expr1 if v else c.expr2, env, depth + 1) if (c.expr1 if v else c.expr2) is not None else c
        return c

    def emit_expr(c, env):
        if isinstance(c, J.Call) and isinstance(c.node, J.Name) and c.node.name in macros and not c.kwargs:
            m = macros[c.node.name]
            params = [a.name for a in m.args]
            if len(c.args) <= len(params):
                env2 = dict(env)
                for pn, av in zip(params, c.args):
                    env2[pn] = subst_src(av, env)
                emit_nodes(m.body, env2)
                return
        c = resolve_cond(c, env)
        mt = model_text(c, env)
        if mt is None and isinstance(c, J.Const) and isinstance(c.value, (str, int)) and not isinstance(c.value, bool):
            mt = str(c.value)
        out.append(mt if mt is not None else placeholder(subst_src(c, env)))

    def emit(n, env):
        if isinstance(n, J.Output):
            for c in n.nodes:
                if isinstance(c, J.TemplateData):
                    out.append(c.data)
                else:
                    emit_expr(c, env)
        elif isinstance(n, J.For):
            els = model_elements(n.iter, env)
            if els is not None and isinstance(n.target, J.Name):
                for i, el in enumerate(els):
                    saved = bound.get(n.target.name)
                    bound[n.target.name] = el
                    loopinfo.append({"last": i == len(els) - 1, "first": i == 0, "index0": i, "index": i + 1, "length": len(els)})
                    emit_nodes(n.body, dict(env))
                    loopinfo.pop()
                    if saved is None:
                        bound.pop(n.target.name, None)
                    else:
                        bound[n.target.name] = saved
            else:
                loopinfo.append({})
                emit_nodes(n.body, dict(env))
                loopinfo.pop()
        elif isinstance(n, J.If):
            key = subst_src(n.test, env)
            v = model_test(n.test, env) if loopinfo and loopinfo[-1] else None
            if v is None:
                v = pol.get(key, pol.get(JTemplate.src(n.test)))
            if v is None:
                v = False
            if v:
                emit_nodes(n.body, env)
            else:
                done = False
                for el in n.elif_:
                    k2 = subst_src(el.test, env)
                    if pol.get(k2):
                        emit_nodes(el.body, env)
                        done = True
                        break
                if not done:
                    emit_nodes(n.else_, env)
        elif isinstance(n, J.Assign):
            if isinstance(n.target, J.Name):
                env[n.target.name] = subst_src(n.node, env)
                env_nodes[n.target.name] = n.node
        elif isinstance(n, J.Macro):
            pass
        elif isinstance(n, (J.Template,)):
            emit_nodes(n.body, env)
        else:
            for c in n.iter_child_nodes():
                emit(c, env)

    emit(t.ast, {})
    return "".join(out)
