"""Abstract instantiation of a Jinja template into one parseable C unit: template text verbatim, every
{{expr}} replaced by a placeholder (identifier / literal / macro by the expression's role), every
{% for %} unrolled once, {% if %} resolved by a fixed policy table.  The template is never rendered."""

from __future__ import annotations

import re
from typing import Callable, Dict, List, Optional

from jinja2 import nodes as J

from .front_jinja import JTemplate

NUMERIC_ATTRS = {"frame_id", "dlc", "start_bit", "bit_length", "scale", "offset", "multiplexer_count", "value"}


def placeholder(src: str) -> str:
    s = src.strip()
    if "loop.index0" in s:
        return "J_IDX"
    if re.search(r"\|\s*length", s):
        return "J_NMSG"
    if s.endswith(".period"):
        return "J_PERIOD"
    last = s.split("|")[0].strip().split(".")[-1]
    if last in NUMERIC_ATTRS:
        return "1"
    if last in ("scalar_type", "data_type"):
        return "uint8_t"
    if last == "is_big_endian_s":
        return "false"
    ident = re.sub(r"[^A-Za-z0-9_]+", "_", s).strip("_")
    return "J_" + ident


DEFAULT_POLICY = {
    "not is_global_device": True,
    "is_global_device": False,
    "include_global": False,
    "messages | length > 0": True,
    "signal.multiplexer_count <= 1": True,
    "signal.multiplexer_count > 1": False,
    "message.is_multiplexer": False,
    "signal.is_multiplexer": False,
    "not loop.last": False,
    "signal.name == message.multiplexer_signal": False,
}


def instantiate(t: JTemplate, policy: Optional[Dict[str, bool]] = None) -> str:
    pol = dict(DEFAULT_POLICY)
    if policy:
        pol.update(policy)
    out: List[str] = []

    def emit_nodes(nodes):
        for n in nodes:
            emit(n)

    def emit(n):
        if isinstance(n, J.Output):
            for c in n.nodes:
                if isinstance(c, J.TemplateData):
                    out.append(c.data)
                else:
                    out.append(placeholder(JTemplate.src(c)))
        elif isinstance(n, J.For):
            emit_nodes(n.body)
        elif isinstance(n, J.If):
            key = JTemplate.src(n.test)
            v = pol.get(key)
            if v is None:
                v = False
            if v:
                emit_nodes(n.body)
            else:
                done = False
                for el in n.elif_:
                    k2 = JTemplate.src(el.test)
                    if pol.get(k2):
                        emit_nodes(el.body)
                        done = True
                        break
                if not done:
                    emit_nodes(n.else_)
        elif isinstance(n, J.Assign):
            pass
        elif isinstance(n, (J.Template,)):
            emit_nodes(n.body)
        else:
            for c in n.iter_child_nodes():
                emit(c)

    emit(t.ast)
    return "".join(out)
