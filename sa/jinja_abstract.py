"""Abstract instantiation of a Jinja template into one parseable C unit: template text verbatim, every
{{expr}} replaced by a placeholder (identifier / literal / macro by the expression's role), every
{% for %} unrolled once, {% if %} resolved by a fixed policy table.  The template is never rendered."""

from __future__ import annotations

import re
from typing import Callable, Dict, List, Optional

from jinja2 import nodes as J

from .front_jinja import JTemplate

NUMERIC_ATTRS = {"frame_id", "dlc", "start_bit", "bit_length", "scale", "offset", "multiplexer_count", "value"}


def placeholder(src: str) -> str:
    s = src.strip()
    if "loop.index0" in s:
        return "J_IDX"
    if re.search(r"\|\s*length", s):
        return "J_NMSG"
    if s.endswith(".period"):
        return "J_PERIOD"
    last = s.split("|")[0].strip().split(".")[-1]
    if last in NUMERIC_ATTRS:
        return "1"
    if last in ("scalar_type", "data_type"):
        return "uint8_t"
    if last == "is_big_endian_s":
        return "false"
    ident = re.sub(r"[^A-Za-z0-9_]+", "_", s).strip("_")
    return "J_" + ident


DEFAULT_POLICY = {
    "not is_global_device": True,
    "is_global_device": False,
    "include_global": False,
    "messages | length > 0": True,
    "signal.multiplexer_count <= 1": True,
    "signal.multiplexer_count > 1": False,
    "message.is_multiplexer": False,
    "signal.is_multiplexer": False,
    "not loop.last": False,
    "signal.name == message.multiplexer_signal": False,
}


def instantiate(t: JTemplate, policy: Optional[Dict[str, bool]] = None) -> str:
    """Abstract instance of a template.  `{% set x = e %}` substitutes e for x in later expressions (single
    assignment in scope); `{% macro m(a) %}...{% endmacro %}` bodies are expanded at `{{ m(x) }}` with a := x."""
    pol = dict(DEFAULT_POLICY)
    if policy:
        pol.update(policy)
    out: List[str] = []
    macros: Dict[str, J.Macro] = {}
    for n in t.ast.find_all(J.Macro):
        macros[n.name] = n

    def subst_src(e, env: Dict[str, str]) -> str:
        """source text of an expression with set-variables / macro parameters replaced"""
        src = JTemplate.src(e)
        if not env:
            return src
        # replace whole identifiers that are not attribute names
        def rep(m):
            nm = m.group(0)
            return "(%s)" % env[nm] if nm in env and not re.match(r"^\w+$", env[nm]) else env.get(nm, nm)
        return re.sub(r"(?<![\w.])[A-Za-z_]\w*", rep, src)

    def emit_nodes(nodes, env):
        for n in nodes:
            emit(n, env)

    def emit_expr(c, env):
        if isinstance(c, J.Call) and isinstance(c.node, J.Name) and c.node.name in macros and not c.kwargs:
            m = macros[c.node.name]
            params = [a.name for a in m.args]
            if len(c.args) <= len(params):
                env2 = dict(env)
                for pn, av in zip(params, c.args):
                    env2[pn] = subst_src(av, env)
                emit_nodes(m.body, env2)
                return
        out.append(placeholder(subst_src(c, env)))

    def emit(n, env):
        if isinstance(n, J.Output):
            for c in n.nodes:
                if isinstance(c, J.TemplateData):
                    out.append(c.data)
                else:
                    emit_expr(c, env)
        elif isinstance(n, J.For):
            emit_nodes(n.body, dict(env))
        elif isinstance(n, J.If):
            key = subst_src(n.test, env)
            v = pol.get(key, pol.get(JTemplate.src(n.test)))
            if v is None:
                v = False
            if v:
                emit_nodes(n.body, env)
            else:
                done = False
                for el in n.elif_:
                    k2 = subst_src(el.test, env)
                    if pol.get(k2):
                        emit_nodes(el.body, env)
                        done = True
                        break
                if not done:
                    emit_nodes(n.else_, env)
        elif isinstance(n, J.Assign):
            if isinstance(n.target, J.Name):
                env[n.target.name] = subst_src(n.node, env)
        elif isinstance(n, J.Macro):
            pass
        elif isinstance(n, (J.Template,)):
            emit_nodes(n.body, env)
        else:
            for c in n.iter_child_nodes():
                emit(c, env)

    emit(t.ast, {})
    return "".join(out)
