"""Transformer callbacks: which grammar rule, how children are destructured."""

from __future__ import annotations

import ast
from dataclasses import dataclass, field
from typing import Dict, List, Optional, Tuple

from .front_py import FuncInfo, walk_local, norm, dotted, AnalysisError


@dataclass
class Callback:
    f: FuncInfo
    rule: str
    tree_mode: bool
    children_src: str  # 'tree.children' or the args parameter name
    binds: Dict[str, Tuple[str, int]] = field(default_factory=dict)  # name -> ('idx', i) | ('rest', i)
    n_fixed: Optional[int] = None  # number of fixed names in a destructuring (None if none)
    has_star: bool = False
    index_uses: List[Tuple[ast.Subscript, object]] = field(default_factory=list)
    whole_uses: List[ast.AST] = field(default_factory=list)  # uses of the children list as a whole

    def child_expr_index(self, e: ast.AST) -> Optional[Tuple[str, int]]:
        if isinstance(e, ast.Name) and e.id in self.binds:
            return self.binds[e.id]
        if isinstance(e, ast.Subscript) and norm(e.value) == self.children_src and isinstance(e.slice, ast.Constant) and isinstance(e.slice.value, int):
            return ("idx", e.slice.value)
        return None


def transformer_class(eng, qual: str = "fcp.parser.FcpV2Transformer"):
    ci = eng.prog.classes.get(qual)
    if ci is None:
        for c in eng.prog.classes.values():
            if any(b.split(".")[-1] == "Transformer" for b in eng.prog.ext_bases(c)) and c.module.name == "fcp.parser":
                return c
        raise AnalysisError("anchor vanished: Transformer subclass in fcp.parser")
    return ci


def callbacks(eng, grammar) -> Dict[str, Callback]:
    ci = transformer_class(eng)
    out: Dict[str, Callback] = {}
    for name, f in ci.methods.items():
        if name.startswith("_"):
            continue
        tree_mode = False
        for d in f.decorators:
            if isinstance(d, ast.Call) and (dotted(d.func) or "").split(".")[-1] == "v_args":
                for k in d.keywords:
                    if k.arg == "tree" and isinstance(k.value, ast.Constant) and k.value.value:
                        tree_mode = True
        ps = [p.arg for p in f.params]
        if len(ps) < 2:
            continue
        src = "%s.children" % ps[1] if tree_mode else ps[1]
        cb = Callback(f, name, tree_mode, src)
        for n in walk_local(f.node):
            if isinstance(n, ast.Assign) and norm(n.value) == src:
                t = n.targets[0]
                if isinstance(t, (ast.Tuple, ast.List)):
                    i = 0
                    cb.n_fixed = 0
                    for e in t.elts:
                        if isinstance(e, ast.Starred) and isinstance(e.value, ast.Name):
                            cb.binds[e.value.id] = ("rest", i)
                            cb.has_star = True
                        elif isinstance(e, ast.Name):
                            cb.binds[e.id] = ("idx", i)
                            cb.n_fixed += 1
                            i += 1
                elif isinstance(t, ast.Name):
                    cb.binds[t.id] = ("rest", 0)
            elif isinstance(n, ast.Assign) and isinstance(n.value, ast.Subscript) and norm(n.value.value) == src and isinstance(n.targets[0], ast.Name):
                s = n.value.slice
                if isinstance(s, ast.Constant) and isinstance(s.value, int):
                    cb.binds[n.targets[0].id] = ("idx", s.value)
                elif isinstance(s, ast.Slice) and isinstance(s.lower, ast.Constant) and s.upper is None:
                    cb.binds[n.targets[0].id] = ("rest", s.lower.value)
        for n in ast.walk(f.node):
            if isinstance(n, ast.Subscript) and norm(n.value) == src:
                s = n.slice
                cb.index_uses.append((n, s.value if isinstance(s, ast.Constant) else None))
        out[name] = cb
    return out


def callback_returns_result(eng, cb: Callback) -> bool:
    rt = eng.T.return_type(cb.f)
    from .types_lite import members
    return any(u[0] == "result" for u in members(rt))
