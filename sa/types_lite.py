"""Annotation-driven local type inference (types-lite).

Types are small tuples:
  ('inst', classqual)  ('class', classqual)  ('module', name)  ('func', qual)
  ('list', T) ('set', T) ('dict', K, V) ('tuple', (T, ...)) ('gen', T)
  ('maybe', T) ('result', T, E) ('union', (T, ...)) ('none',)
  ('prim', 'int'|'str'|'float'|'bool'|'bytes'|'bytearray')
  ('ext', dotted)      - an external module / symbol
  ('extinst', dotted)  - an instance of an external class
  None                 - unknown (never the basis of a verdict)
"""

from __future__ import annotations

import ast
from typing import Dict, List, Optional

from .front_py import Program, FuncInfo, ClassInfo, ModuleInfo, dotted, walk_local

PRIMS = {"int", "str", "float", "bool", "bytes", "bytearray"}
LISTY = {"List", "list", "Sequence", "Iterable", "Iterator"}
MAYBE_Q = "fcp.maybe"
RESULT_Q = "fcp.result"


def union(ts):
    flat = []
    for t in ts:
        if t is None:
            return None
        if t[0] == "union":
            for u in t[1]:
                if u not in flat:
                    flat.append(u)
        elif t not in flat:
            flat.append(t)
    if not flat:
        return None
    if len(flat) == 1:
        return flat[0]
    return ("union", tuple(flat))


def members(t):
    if t is None:
        return []
    if t[0] == "union":
        return list(t[1])
    return [t]


class Types:
    """Per-program type service with per-function caches."""

    def __init__(self, prog: Program):
        self.prog = prog
        self._fn_cache: Dict[str, "FnTypes"] = {}
        self._attr_cache: Dict[str, Dict[str, object]] = {}

    # ---------------------------------------------------------------- annotations
    def ann(self, m: ModuleInfo, fn: Optional[FuncInfo], a: Optional[ast.AST]):
        if a is None:
            return None
        if isinstance(a, ast.Constant):
            if a.value is None:
                return ("none",)
            if isinstance(a.value, str):
                try:
                    return self.ann(m, fn, ast.parse(a.value, mode="eval").body)
                except SyntaxError:
                    return None
            return None
        if isinstance(a, ast.BinOp) and isinstance(a.op, ast.BitOr):
            return union([self.ann(m, fn, a.left), self.ann(m, fn, a.right)])
        if isinstance(a, ast.Subscript):
            head = dotted(a.value) or ""
            h = head.split(".")[-1]
            args = a.slice.elts if isinstance(a.slice, ast.Tuple) else [a.slice]
            if h in LISTY:
                return ("list", self.ann(m, fn, args[0]))
            if h in ("Set", "set", "FrozenSet", "frozenset"):
                return ("set", self.ann(m, fn, args[0]))
            if h in ("Dict", "dict", "Mapping", "DefaultDict"):
                return ("dict", self.ann(m, fn, args[0]), self.ann(m, fn, args[1]) if len(args) > 1 else None)
            if h == "Optional":
                return union([self.ann(m, fn, args[0]), ("none",)]) or None
            if h == "Union":
                return union([self.ann(m, fn, x) for x in args])
            if h in ("Tuple", "tuple"):
                return ("tuple", tuple(self.ann(m, fn, x) for x in args))
            if h == "Generator":
                return ("gen", self.ann(m, fn, args[0]))
            if h == "Maybe" or h == "Some":
                return ("maybe", self.ann(m, fn, args[0]))
            if h in ("Result",):
                return ("result", self.ann(m, fn, args[0]), self.ann(m, fn, args[1]) if len(args) > 1 else None)
            if h in ("Ok",):
                return ("result", self.ann(m, fn, args[0]), None)
            if h in ("Err",):
                return ("result", None, self.ann(m, fn, args[0]))
            if h in ("Type", "type"):
                t = self.ann(m, fn, args[0])
                return ("class", t[1]) if t and t[0] == "inst" else None
            if h == "Callable":
                return None
            return self.ann(m, fn, a.value)
        if isinstance(a, (ast.Name, ast.Attribute)):
            d = dotted(a)
            if d in PRIMS:
                return ("prim", d)
            if d == "Any":
                return ("any",)
            if d in ("object", "NoReturn", "Never", "Nil"):
                return None
            if d == "None":
                return ("none",)
            if d in ("Self",) and fn is not None and fn.cls is not None:
                return ("inst", fn.cls.qual)
            r = self.prog.resolve_expr_symbol(m, None, a)
            if r is None:
                return None
            if r[0] == "class":
                return ("inst", r[1])
            if r[0] == "ext":
                return ("extinst", r[1])
            if r[0] == "var":
                # type alias at module level (e.g. EncodeablePiece = Union[Value])
                mm = self.prog.modules[r[1]]
                return self.ann(mm, None, mm.assigns[r[2]])
            return None
        return None

    # ---------------------------------------------------------------- class attrs
    def class_attrs(self, ci: ClassInfo) -> Dict[str, object]:
        """attribute name -> type, from class-body annotations and __init__ stores."""
        if ci.qual in self._attr_cache:
            return self._attr_cache[ci.qual]
        out: Dict[str, object] = {}
        self._attr_cache[ci.qual] = out
        for c in reversed(self.prog.mro(ci)):
            for name, a in c.ann_fields.items():
                out[name] = self.ann(c.module, None, a)
            for mname, mi in c.methods.items():
                # self.x: T = ... / self.x = <param>  (any method, __init__ mostly)
                ptypes = {p.arg: self.ann(c.module, mi, p.annotation) for p in mi.params}
                for n in walk_local(mi.node):
                    tgt = val = annn = None
                    if isinstance(n, ast.AnnAssign):
                        tgt, val, annn = n.target, n.value, n.annotation
                    elif isinstance(n, ast.Assign) and len(n.targets) == 1:
                        tgt, val = n.targets[0], n.value
                    if (
                        isinstance(tgt, ast.Attribute)
                        and isinstance(tgt.value, ast.Name)
                        and tgt.value.id == "self"
                    ):
                        t = None
                        if annn is not None:
                            t = self.ann(c.module, mi, annn)
                        elif isinstance(val, ast.Name) and val.id in ptypes:
                            t = ptypes[val.id]
                        elif isinstance(val, ast.Call):
                            r = self.prog.resolve_expr_symbol(c.module, mi, val.func)
                            if r and r[0] == "class":
                                t = ("inst", r[1])
                            elif r and r[0] == "func":
                                f2 = self.prog.functions[r[1]]
                                t = self.ann(f2.module, f2, f2.node.returns)
                        elif isinstance(val, ast.Constant):
                            t = self.const_type(val)
                        if out.get(tgt.attr) is None:
                            out[tgt.attr] = t
        return out

    @staticmethod
    def const_type(c: ast.Constant):
        v = c.value
        if v is None:
            return ("none",)
        for k, n in ((bool, "bool"), (int, "int"), (float, "float"), (str, "str"), (bytes, "bytes")):
            if type(v) is k:
                return ("prim", n)
        return None

    def attr_type(self, t, attr: str):
        out = []
        for u in members(t):
            if u[0] == "inst" and u[1] in self.prog.classes:
                ci = self.prog.classes[u[1]]
                attrs = self.class_attrs(ci)
                if attr in attrs and attrs[attr] is not None:
                    out.append(attrs[attr])
                    continue
                mi = self.prog.find_method(ci, attr)
                if mi:
                    out.append(("boundmethod", mi.qual, u[1]))
                    continue
                eb = [b for b in self.prog.ext_bases(ci) if b not in ("object",)]
                if eb:
                    out.append(("ext", eb[0] + "." + attr))
                    continue
                if len(members(t)) > 1:
                    continue  # a union member without the attribute: narrowed away by use
                return None
            elif u[0] == "module":
                r = self.prog.lookup_module_symbol(self.prog.modules[u[1]], attr)
                if u[1] + "." + attr in self.prog.modules:
                    out.append(("module", u[1] + "." + attr))
                elif r and r[0] == "class":
                    out.append(("class", r[1]))
                elif r and r[0] == "func":
                    out.append(("func", r[1]))
                else:
                    return None
            elif u[0] == "class":
                mi = self.prog.find_method(self.prog.classes[u[1]], attr) if u[1] in self.prog.classes else None
                if mi:
                    out.append(("func", mi.qual))
                else:
                    return None
            elif u[0] == "ext":
                out.append(("ext", u[1] + "." + attr))
            elif u[0] in ("maybe", "result"):
                out.append(("wrapmethod", u, attr))
            else:
                return None
        return union(out) if out else None

    # ---------------------------------------------------------------- functions
    def fn(self, f: FuncInfo) -> "FnTypes":
        if f.qual not in self._fn_cache:
            ft = FnTypes(self, f)
            self._fn_cache[f.qual] = ft
            ft.run()
        return self._fn_cache[f.qual]

    def return_type(self, f: FuncInfo):
        return self.ann(f.module, f, getattr(f.node, "returns", None))


class FnTypes:
    """Types of every expression node inside one function (id(node) -> type)."""

    def __init__(self, T: Types, f: FuncInfo):
        self.T = T
        self.prog = T.prog
        self.f = f
        self.m = f.module
        self.types: Dict[int, object] = {}
        self.final_env: Dict[str, object] = {}
        self._running = False

    # -- env ------------------------------------------------------------------
    def initial_env(self) -> Dict[str, object]:
        env: Dict[str, object] = {}
        if self.f.parent is not None:
            pt = self.T.fn(self.f.parent)
            env.update(pt.final_env)
        ps = self.f.params
        for i, p in enumerate(ps):
            t = self.T.ann(self.m, self.f, p.annotation)
            if i == 0 and self.f.cls is not None and p.arg == "self" and self.f.parent is None:
                t = ("inst", self.f.cls.qual)
            env[p.arg] = t
        return env

    def run(self) -> None:
        if self._running:
            return
        self._running = True
        env = self.initial_env()
        body = self.f.node.body if not isinstance(self.f.node, ast.Lambda) else []
        self.block(body, env)
        self.final_env = env

    def of(self, node: ast.AST):
        return self.types.get(id(node))

    # -- statements -----------------------------------------------------------
    def block(self, stmts: List[ast.stmt], env: Dict[str, object]) -> None:
        for st in stmts:
            self.stmt(st, env)

    def bind(self, target: ast.AST, t, env) -> None:
        if isinstance(target, ast.Name):
            env[target.id] = t
            self.types[id(target)] = t
        elif isinstance(target, (ast.Tuple, ast.List)):
            elts = target.elts
            for i, e in enumerate(elts):
                et = None
                if isinstance(e, ast.Starred):
                    self.bind(e.value, None, env)
                    continue
                if t is not None and t[0] == "tuple" and len(t[1]) == len(elts):
                    et = t[1][i]
                elif t is not None and t[0] == "list":
                    et = t[1]
                self.bind(e, et, env)
        elif isinstance(target, (ast.Attribute, ast.Subscript)):
            self.expr(target.value, env)
            if isinstance(target, ast.Subscript):
                self.expr(target.slice, env)
        elif isinstance(target, ast.Starred):
            self.bind(target.value, None, env)

    def elem_type(self, t):
        out = []
        for u in members(t):
            if u[0] in ("list", "set", "gen"):
                out.append(u[1])
            elif u[0] == "dict":
                out.append(u[1])
            elif u[0] == "tuple" and u[1]:
                out.append(union(list(u[1])))
            elif u[0] == "prim" and u[1] == "str":
                out.append(("prim", "str"))
            elif u[0] == "prim" and u[1] in ("bytes", "bytearray"):
                out.append(("prim", "int"))
            else:
                return None
        return union(out) if out else None

    def stmt(self, st: ast.stmt, env) -> None:
        if isinstance(st, ast.Assign):
            t = self.expr(st.value, env)
            for tg in st.targets:
                self.bind(tg, t, env)
        elif isinstance(st, ast.AnnAssign):
            t = self.T.ann(self.m, self.f, st.annotation)
            if st.value is not None:
                vt = self.expr(st.value, env)
                t = t or vt
            self.bind(st.target, t, env)
        elif isinstance(st, ast.AugAssign):
            self.expr(st.value, env)
            self.expr(st.target, env) if not isinstance(st.target, ast.Name) else self.types.__setitem__(id(st.target), env.get(st.target.id))
        elif isinstance(st, (ast.Expr, ast.Return)):
            if st.value is not None:
                self.expr(st.value, env)
        elif isinstance(st, ast.If):
            self.expr(st.test, env)
            e1 = dict(env)
            self.narrow(st.test, e1, True)
            self.block(st.body, e1)
            e2 = dict(env)
            self.narrow(st.test, e2, False)
            self.block(st.orelse, e2)
            t1 = self.terminates(st.body)
            t2 = self.terminates(st.orelse) if st.orelse else False
            if t1 and not t2:
                env.clear(); env.update(e2)
            elif t2 and not t1:
                env.clear(); env.update(e1)
            else:
                for k in set(e1) | set(e2):
                    a, b = e1.get(k), e2.get(k)
                    if a == b:
                        env[k] = a
                    elif a is not None and b is not None:
                        env[k] = union([a, b])
                    else:
                        env[k] = None
        elif isinstance(st, (ast.For, ast.AsyncFor)):
            it = self.expr(st.iter, env)
            self.bind(st.target, self.iter_elem(st.iter, it, env), env)
            self.block(st.body, env)
            self.block(st.orelse, env)
        elif isinstance(st, ast.While):
            self.expr(st.test, env)
            self.block(st.body, env)
            self.block(st.orelse, env)
        elif isinstance(st, (ast.With, ast.AsyncWith)):
            for it in st.items:
                t = self.expr(it.context_expr, env)
                if it.optional_vars is not None:
                    self.bind(it.optional_vars, t, env)
            self.block(st.body, env)
        elif isinstance(st, ast.Try):
            self.block(st.body, env)
            for h in st.handlers:
                e2 = env
                if h.type is not None:
                    self.expr(h.type, env)
                if h.name:
                    ht = None
                    if h.type is not None and not isinstance(h.type, ast.Tuple):
                        r = self.prog.resolve_expr_symbol(self.m, self.f, h.type)
                        if r and r[0] == "ext":
                            ht = ("extinst", r[1])
                        elif r and r[0] == "class":
                            ht = ("inst", r[1])
                        elif r and r[0] == "builtin":
                            ht = ("extinst", "builtins." + r[1])
                    elif isinstance(h.type, ast.Tuple):
                        parts = []
                        for el in h.type.elts:
                            r = self.prog.resolve_expr_symbol(self.m, self.f, el)
                            if r and r[0] == "ext":
                                parts.append(("extinst", r[1]))
                            elif r and r[0] == "class":
                                parts.append(("inst", r[1]))
                            elif r and r[0] == "builtin":
                                parts.append(("extinst", "builtins." + r[1]))
                        ht = union(parts) if parts else None
                    e2[h.name] = ht
                self.block(h.body, e2)
            self.block(st.orelse, env)
            self.block(st.finalbody, env)
        elif isinstance(st, (ast.Raise,)):
            if st.exc is not None:
                self.expr(st.exc, env)
        elif isinstance(st, ast.Assert):
            self.expr(st.test, env)
            if st.msg is not None:
                self.expr(st.msg, env)
            self.narrow(st.test, env, True)
        elif isinstance(st, (ast.FunctionDef, ast.AsyncFunctionDef)):
            fi = self.f.nested.get(st.name)
            env[st.name] = ("func", fi.qual) if fi else None
            for d in st.decorator_list:
                self.expr(d, env)
        elif isinstance(st, ast.Delete):
            for t in st.targets:
                self.expr(t, env) if not isinstance(t, ast.Name) else None
        elif isinstance(st, ast.Match):
            self.expr(st.subject, env)
            for c in st.cases:
                self.block(c.body, dict(env))
        else:
            for c in ast.iter_child_nodes(st):
                if isinstance(c, ast.expr):
                    self.expr(c, env)

    @staticmethod
    def terminates(stmts) -> bool:
        if not stmts:
            return False
        last = stmts[-1]
        if isinstance(last, (ast.Return, ast.Raise, ast.Continue, ast.Break)):
            return True
        if isinstance(last, ast.If) and last.orelse:
            return FnTypes.terminates(last.body) and FnTypes.terminates(last.orelse)
        return False

    def iter_elem(self, it_node, it_type, env):
        # enumerate / sorted / reversed / range / dict.items handled in expr()
        return self.elem_type(it_type)

    # -- narrowing ------------------------------------------------------------
    def isinstance_classes(self, call: ast.Call, env):
        """isinstance(x, C) / isinstance(x, (A, B)) -> (name-expr, [types])"""
        if not (isinstance(call, ast.Call) and isinstance(call.func, ast.Name) and call.func.id == "isinstance" and len(call.args) == 2):
            return None
        tgt, c = call.args
        cs = c.elts if isinstance(c, ast.Tuple) else [c]
        ts = []
        for x in cs:
            r = self.prog.resolve_expr_symbol(self.m, self.f, x)
            if r and r[0] == "class":
                ts.append(("inst", r[1]))
            elif r and r[0] == "builtin" and r[1] in PRIMS:
                ts.append(("prim", r[1]))
            elif r and r[0] == "builtin" and r[1] in ("tuple", "list", "dict"):
                ts.append({"tuple": ("tuple", ()), "list": ("list", None), "dict": ("dict", None, None)}[r[1]])
            elif r and r[0] == "ext":
                ts.append(("extinst", r[1]))
            else:
                return None
        return tgt, ts

    def narrow(self, test: ast.AST, env, positive: bool) -> None:
        if isinstance(test, ast.UnaryOp) and isinstance(test.op, ast.Not):
            self.narrow(test.operand, env, not positive)
            return
        if isinstance(test, ast.BoolOp):
            if isinstance(test.op, ast.And) and positive:
                for v in test.values:
                    self.narrow(v, env, True)
            elif isinstance(test.op, ast.Or) and positive:
                # isinstance(a, X) or isinstance(a, Y) on the same name
                got = [self.isinstance_classes(v, env) for v in test.values]
                if all(g is not None and isinstance(g[0], ast.Name) for g in got):
                    names = {g[0].id for g in got}
                    if len(names) == 1:
                        env[names.pop()] = union([t for g in got for t in g[1]])
            elif isinstance(test.op, ast.Or) and not positive:
                for v in test.values:
                    self.narrow(v, env, False)
            return
        ic = self.isinstance_classes(test, env) if isinstance(test, ast.Call) else None
        if ic is not None and isinstance(ic[0], ast.Name):
            name = ic[0].id
            if positive:
                env[name] = union(ic[1])
            else:
                cur = env.get(name)
                if cur is not None and cur[0] == "union":
                    rest = [u for u in cur[1] if not any(self.subtype(u, c) for c in ic[1])]
                    env[name] = union(rest) if rest else cur
            return
        # x is None / x is not None
        if isinstance(test, ast.Compare) and len(test.ops) == 1 and isinstance(test.left, ast.Name):
            op, rhs = test.ops[0], test.comparators[0]
            if isinstance(rhs, ast.Constant) and rhs.value is None and isinstance(op, (ast.Is, ast.IsNot)):
                is_none = isinstance(op, ast.Is) == positive
                cur = env.get(test.left.id)
                if cur is not None and cur[0] == "union":
                    if is_none:
                        env[test.left.id] = ("none",)
                    else:
                        rest = [u for u in cur[1] if u != ("none",)]
                        env[test.left.id] = union(rest) if rest else cur
            return
        if isinstance(test, ast.Name) and positive:
            cur = env.get(test.id)
            if cur is not None and cur[0] == "union":
                rest = [u for u in cur[1] if u != ("none",)]
                env[test.id] = union(rest) if rest else cur

    def subtype(self, a, b) -> bool:
        if a == b:
            return True
        if a and b and a[0] == "inst" and b[0] == "inst":
            return self.prog.is_subclass(a[1], b[1])
        return False

    # -- expressions ----------------------------------------------------------
    def expr(self, e: ast.AST, env):
        t = self._expr(e, env)
        self.types[id(e)] = t
        return t

    def _expr(self, e, env):
        if isinstance(e, ast.Constant):
            return Types.const_type(e)
        if isinstance(e, ast.Name):
            if e.id in env:
                return env[e.id]
            r = self.prog.resolve_name(self.m, self.f, e.id)
            return self.sym_type(r)
        if isinstance(e, ast.Attribute):
            bt = self.expr(e.value, env)
            return self.T.attr_type(bt, e.attr)
        if isinstance(e, ast.Call):
            return self.call(e, env)
        if isinstance(e, ast.Subscript):
            bt = self.expr(e.value, env)
            self.expr(e.slice, env)
            if isinstance(e.slice, ast.Slice):
                return bt
            out = []
            for u in members(bt):
                if u[0] == "list":
                    out.append(u[1])
                elif u[0] == "dict":
                    out.append(u[2])
                elif u[0] == "tuple" and isinstance(e.slice, ast.Constant) and isinstance(e.slice.value, int) and -len(u[1]) <= e.slice.value < len(u[1]):
                    out.append(u[1][e.slice.value])
                elif u[0] == "prim" and u[1] == "str":
                    out.append(("prim", "str"))
                else:
                    return None
            return union(out) if out else None
        if isinstance(e, ast.Slice):
            for c in (e.lower, e.upper, e.step):
                if c is not None:
                    self.expr(c, env)
            return None
        if isinstance(e, (ast.List, ast.Set)):
            ts = [self.expr(x, env) for x in e.elts]
            et = union(ts) if ts and all(t is not None for t in ts) else None
            return ("list" if isinstance(e, ast.List) else "set", et)
        if isinstance(e, ast.Tuple):
            return ("tuple", tuple(self.expr(x, env) for x in e.elts))
        if isinstance(e, ast.Dict):
            ks = [self.expr(k, env) for k in e.keys if k is not None]
            for k, v in zip(e.keys, e.values):
                if k is None:
                    self.expr(v, env)
            vs = [self.expr(v, env) for k, v in zip(e.keys, e.values) if k is not None]
            return ("dict", union(ks) if ks and all(ks) else None, union(vs) if vs and all(v is not None for v in vs) else None)
        if isinstance(e, (ast.ListComp, ast.SetComp, ast.GeneratorExp)):
            env2 = dict(env)
            self.comp_gens(e.generators, env2)
            et = self.expr(e.elt, env2)
            return ({ast.ListComp: "list", ast.SetComp: "set", ast.GeneratorExp: "gen"}[type(e)], et)
        if isinstance(e, ast.DictComp):
            env2 = dict(env)
            self.comp_gens(e.generators, env2)
            return ("dict", self.expr(e.key, env2), self.expr(e.value, env2))
        if isinstance(e, ast.IfExp):
            self.expr(e.test, env)
            e1 = dict(env); self.narrow(e.test, e1, True)
            e2 = dict(env); self.narrow(e.test, e2, False)
            a, b = self.expr(e.body, e1), self.expr(e.orelse, e2)
            return union([a, b]) if a is not None and b is not None else None
        if isinstance(e, ast.BoolOp):
            ts = [self.expr(v, env) for v in e.values]
            return union(ts) if all(t is not None for t in ts) else None
        if isinstance(e, ast.BinOp):
            a, b = self.expr(e.left, env), self.expr(e.right, env)
            if a is not None and a == b:
                return a
            if a and b and a[0] == "list" and b[0] == "list":
                return ("list", union([a[1], b[1]]) if a[1] is not None and b[1] is not None else None)
            if a and a[0] in ("extinst",) and isinstance(e.op, ast.Div):
                return a
            if a and b and a[0] == "prim" and b[0] == "prim":
                if "float" in (a[1], b[1]) or isinstance(e.op, ast.Div):
                    return ("prim", "float")
                return a
            return None
        if isinstance(e, ast.UnaryOp):
            t = self.expr(e.operand, env)
            return ("prim", "bool") if isinstance(e.op, ast.Not) else t
        if isinstance(e, ast.Compare):
            self.expr(e.left, env)
            for c in e.comparators:
                self.expr(c, env)
            return ("prim", "bool")
        if isinstance(e, ast.JoinedStr):
            for v in e.values:
                if isinstance(v, ast.FormattedValue):
                    self.expr(v.value, env)
            return ("prim", "str")
        if isinstance(e, ast.Lambda):
            return ("lambda", e)
        if isinstance(e, ast.Starred):
            return self.expr(e.value, env)
        if isinstance(e, ast.NamedExpr):
            t = self.expr(e.value, env)
            self.bind(e.target, t, env)
            return t
        if isinstance(e, (ast.Yield, ast.YieldFrom, ast.Await)):
            if e.value is not None:
                self.expr(e.value, env)
            return None
        for c in ast.iter_child_nodes(e):
            if isinstance(c, ast.expr):
                self.expr(c, env)
        return None

    def comp_gens(self, gens, env2):
        for g in gens:
            it = self.expr(g.iter, env2)
            self.bind(g.target, self.elem_type(it), env2)
            for c in g.ifs:
                self.expr(c, env2)
                self.narrow(c, env2, True)

    def sym_type(self, r):
        if r is None:
            return None
        if r[0] == "module":
            return ("module", r[1])
        if r[0] == "class":
            return ("class", r[1])
        if r[0] == "func":
            return ("func", r[1])
        if r[0] == "ext":
            return ("ext", r[1])
        if r[0] == "builtin":
            return ("ext", "builtins." + r[1])
        if r[0] == "var":
            mm = self.prog.modules[r[1]]
            v = mm.assigns[r[2]]
            if isinstance(v, ast.Call):
                rr = self.prog.resolve_expr_symbol(mm, None, v.func)
                if rr and rr[0] == "class":
                    return ("inst", rr[1])
                if rr and rr[0] == "ext":
                    if rr[1].split(".")[-2:] in (["Lark", "open"], ["Lark", "open_from_package"]):
                        return ("extinst", ".".join(rr[1].split(".")[:-1]))
                    return ("extinst", rr[1])
            if isinstance(v, ast.Constant):
                return Types.const_type(v)
            return None
        if r[0] == "local":
            # bound in an enclosing function: use its final env
            f = r[1]
            return None
        return None

    def lambda_with(self, lam: ast.Lambda, argtypes, env):
        env2 = dict(env)
        ps = lam.args.args
        for i, p in enumerate(ps):
            env2[p.arg] = argtypes[i] if i < len(argtypes) else None
        return self.expr(lam.body, env2)

    def call(self, e: ast.Call, env):
        # evaluate args first (lambdas deferred)
        argts = []
        for a in e.args:
            argts.append(self.expr(a, env) if not isinstance(a, ast.Lambda) else ("lambda", a))
        kw = {}
        for k in e.keywords:
            kw[k.arg] = self.expr(k.value, env) if not isinstance(k.value, ast.Lambda) else ("lambda", k.value)
        ft = self.expr(e.func, env)
        r = self._call(e, env, argts, kw, ft)
        for a in list(argts) + list(kw.values()):
            if a is not None and a[0] == "lambda" and id(a[1].body) not in self.types:
                self.lambda_with(a[1], [], env)
        return r

    def _call(self, e: ast.Call, env, argts, kw, ft):
        # builtins with element semantics
        if isinstance(e.func, ast.Name) and e.func.id not in env:
            r = self.prog.resolve_name(self.m, self.f, e.func.id)
            if r and r[0] == "builtin":
                n = r[1]
                a0 = argts[0] if argts else None
                if n in ("sorted", "list", "reversed"):
                    et = self.elem_type(a0)
                    lam = kw.get("key")
                    if lam and lam[0] == "lambda":
                        self.lambda_with(lam[1], [et], env)
                    return ("list", et)
                if n in ("set", "frozenset"):
                    return ("set", self.elem_type(a0))
                if n == "tuple":
                    return ("tuple", ())
                if n in ("max", "min"):
                    lam = kw.get("key")
                    et = self.elem_type(a0) if len(argts) == 1 else (union(argts) if all(argts) else None)
                    if lam and lam[0] == "lambda":
                        self.lambda_with(lam[1], [et], env)
                    return et
                if n == "enumerate":
                    return ("list", ("tuple", (("prim", "int"), self.elem_type(a0))))
                if n == "zip":
                    return ("list", ("tuple", tuple(self.elem_type(a) for a in argts)))
                if n == "range":
                    return ("list", ("prim", "int"))
                if n in ("map", "filter"):
                    et = self.elem_type(argts[1]) if len(argts) > 1 else None
                    if a0 and a0[0] == "lambda":
                        rt = self.lambda_with(a0[1], [et], env)
                        return ("gen", rt if n == "map" else et)
                    return ("gen", None if n == "map" else et)
                if n in ("len", "int", "ord", "sum", "abs", "round", "hash", "id"):
                    if n == "sum" and argts:
                        pass
                    return ("prim", "int")
                if n in ("str", "repr", "chr"):
                    return ("prim", "str")
                if n == "float":
                    return ("prim", "float")
                if n in ("bool", "isinstance", "any", "all", "callable", "hasattr"):
                    return ("prim", "bool")
                if n == "bytearray" or n == "bytes":
                    return ("prim", n)
                if n == "dict":
                    return ("dict", None, None)
                if n == "open":
                    return ("extinst", "io.TextIOWrapper")
                if n == "getattr":
                    return None
                return None
        # copy / deepcopy keep the type
        d = dotted(e.func)
        if ft and ft[0] == "ext" and ft[1] in ("copy.copy", "copy.deepcopy", "copy") and argts:
            return argts[0]
        if ft and ft[0] == "ext" and ft[1] in ("typing.cast", "beartype.typing.cast") and len(e.args) == 2:
            return self.T.ann(self.m, self.f, e.args[0]) or argts[1]
        out = []
        for u in members(ft):
            if u[0] == "class":
                a0 = argts[0] if argts else None
                if u[1] == "fcp.result.Ok":
                    out.append(("result", a0, None))
                elif u[1] == "fcp.result.Err":
                    out.append(("result", None, a0))
                elif u[1] == "fcp.maybe.Some":
                    out.append(("maybe", a0))
                elif u[1] == "fcp.maybe.Nothing":
                    out.append(("maybe", None))
                else:
                    out.append(("inst", u[1]))
            elif u[0] == "func":
                f2 = self.prog.functions[u[1]]
                out.append(self.T.return_type(f2))
            elif u[0] == "boundmethod":
                f2 = self.prog.functions[u[1]]
                rt = self.T.return_type(f2)
                out.append(rt)
            elif u[0] == "wrapmethod":
                out.append(self.wrap_call(u[1], u[2], e, argts, env))
            elif u[0] == "ext":
                if u[1].split(".")[-1] in ("open", "open_from_package") and u[1].split(".")[-2:-1] == ["Lark"]:
                    out.append(("extinst", ".".join(u[1].split(".")[:-1])))  # alternative constructors of lark.Lark
                else:
                    out.append(("extinst", u[1]) if u[1].split(".")[-1][:1].isupper() else ("extret", u[1]))
            else:
                return None
        if not out or any(o is None for o in out):
            # list/dict/str methods
            if isinstance(e.func, ast.Attribute):
                bt = self.of(e.func.value)
                return self.container_method(bt, e.func.attr, argts)
            return None
        return union(out)

    def container_method(self, bt, name, argts):
        out = []
        for u in members(bt):
            if u[0] == "dict":
                if name in ("get", "pop", "setdefault"):
                    v = u[2]
                    if name == "get" and v is not None:
                        if len(argts) < 2:
                            v = union([v, ("none",)])
                        elif argts[1] is not None:
                            v = union([v, argts[1]])
                        else:
                            v = None
                    out.append(v)
                elif name == "items":
                    out.append(("list", ("tuple", (u[1], u[2]))))
                elif name == "keys":
                    out.append(("list", u[1]))
                elif name == "values":
                    out.append(("list", u[2]))
                else:
                    return None
            elif u[0] == "list":
                if name in ("count", "index"):
                    out.append(("prim", "int"))
                elif name == "copy":
                    out.append(u)
                elif name == "pop":
                    out.append(u[1])
                else:
                    return None
            elif u[0] == "prim" and u[1] == "str":
                if name in ("replace", "lower", "upper", "strip", "lstrip", "rstrip", "join", "format", "capitalize", "title"):
                    out.append(("prim", "str"))
                elif name in ("split", "splitlines"):
                    out.append(("list", ("prim", "str")))
                elif name in ("startswith", "endswith", "isupper", "islower", "isdigit"):
                    out.append(("prim", "bool"))
                else:
                    return None
            else:
                return None
        return union(out) if out and all(o is not None for o in out) else None

    def wrap_call(self, w, meth, e: ast.Call, argts, env):
        """Method call on Maybe[T] / Result[T,E]."""
        if w[0] == "maybe":
            T_ = w[1]
            if meth in ("unwrap", "attempt", "some", "expect", "unwrap_or_raise", "some_value"):
                return T_
            if meth in ("unwrap_or",):
                return union([T_, argts[0]]) if argts and argts[0] is not None and T_ is not None else T_
            if meth in ("is_some", "is_nothing"):
                return ("prim", "bool")
            if meth in ("and_then", "map"):
                if argts and argts[0] and argts[0][0] == "lambda":
                    rt = self.lambda_with(argts[0][1], [T_], env)
                    if meth == "map":
                        return ("maybe", rt)
                    return rt if rt and rt[0] == "maybe" else ("maybe", None)
                return ("maybe", None)
            return None
        if w[0] == "result":
            T_, E_ = w[1], w[2]
            if meth in ("unwrap", "attempt", "ok", "expect", "ok_value"):
                return T_
            if meth in ("err", "unwrap_err", "err_value", "expect_err"):
                return E_
            if meth == "unwrap_or":
                return union([T_, argts[0]]) if argts and argts[0] is not None and T_ is not None else T_
            if meth in ("is_ok", "is_err"):
                return ("prim", "bool")
            if meth == "map_err":
                if argts and argts[0] and argts[0][0] == "lambda":
                    rt = self.lambda_with(argts[0][1], [E_], env)
                    return ("result", T_, rt)
                return ("result", T_, None)
            if meth in ("map",):
                if argts and argts[0] and argts[0][0] == "lambda":
                    rt = self.lambda_with(argts[0][1], [T_], env)
                    return ("result", rt, E_)
                return ("result", None, E_)
            return None
        return None
