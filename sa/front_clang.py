"""clang front end: type-resolved JSON ASTs of the repository's static C / C++ sources (parsed,
type-checked, never linked or run)."""

from __future__ import annotations

import json
import os
import subprocess
import tempfile
from typing import Dict, Iterator, List, Optional, Tuple

from .front_py import AnalysisError

VERIF = os.path.dirname(os.path.dirname(os.path.abspath(__file__)))
STUBS = os.path.join(VERIF, "stubs")


class CNode(dict):
    @property
    def kind(self):
        return self.get("kind")

    @property
    def inner(self) -> List["CNode"]:
        return self.get("inner", [])

    @property
    def qtype(self) -> str:
        return self.get("type", {}).get("qualType", "")

    @property
    def desugared(self) -> str:
        return self.get("type", {}).get("desugaredQualType", self.qtype)


def _wrap(o):
    if isinstance(o, dict):
        n = CNode(o)
        if "inner" in n:
            n["inner"] = [_wrap(x) for x in n["inner"] if isinstance(x, dict)]
        return n
    return o


def walk(n: CNode) -> Iterator[CNode]:
    stack = [n]
    while stack:
        x = stack.pop()
        yield x
        stack.extend(reversed(x.inner))


def narrow_shifts(root: CNode) -> List[Tuple[CNode, int, str]]:
    """`<<` computed in a type narrower than the integer type its value is converted to, with a shift count
    that is not a compile-time constant: [(node, computed width, target type)].  E.g. `uint64_t m = 1 << (n - 1)`:
    the shift is done in 32-bit int (undefined / truncated for counts >= 31) and only then widened."""
    out = []
    pm = parent_map(root)
    for x in walk(root):
        if x.kind != "BinaryOperator" or x.get("opcode") != "<<" or len(x.inner) != 2:
            continue
        w = int_width(x.desugared) or int_width(x.qtype)
        if w is None or w >= 64:
            continue
        rhs = x.inner[1]
        if not any(y.kind == "DeclRefExpr" or y.kind == "MemberExpr" for y in walk(rhs)):
            continue  # constant count
        cur = x
        while id(cur) in pm and pm[id(cur)].kind == "ParenExpr":
            cur = pm[id(cur)]
        par = pm.get(id(cur))
        tgt = None
        if par is not None and par.kind == "ImplicitCastExpr" and par.get("castKind") == "IntegralCast":
            tgt = par
        elif par is not None and par.kind in ("CStyleCastExpr", "CXXStaticCastExpr", "CXXFunctionalCastExpr"):
            tgt = par
        if tgt is None:
            continue
        tw = int_width(tgt.desugared) or int_width(tgt.qtype)
        if tw is not None and tw > w:
            out.append((x, w, tgt.qtype))
    return out


def parent_map(n: CNode) -> Dict[int, CNode]:
    pm = {}
    for x in walk(n):
        for c in x.inner:
            pm[id(c)] = x
    return pm


def run_clang(args: List[str], cwd: Optional[str] = None, timeout: int = 120):
    exe = "clang++" if any(a.startswith("-std=c++") for a in args) else "clang"
    try:
        r = subprocess.run([exe] + args, capture_output=True, text=True, cwd=cwd, timeout=timeout)
    except FileNotFoundError:
        raise AnalysisError("clang is not available")
    return r


def c_ast(path: str, include_dirs: List[str] = ()) -> CNode:
    args = ["-std=c11", "-fsyntax-only", "-Xclang", "-ast-dump=json"] + ["-I" + d for d in include_dirs] + [path]
    r = run_clang(args, cwd=os.path.dirname(path))
    if r.returncode != 0 and not r.stdout.strip():
        raise AnalysisError("clang cannot parse %s: %s" % (path, r.stderr[-300:]))
    try:
        return _wrap(json.loads(r.stdout))
    except json.JSONDecodeError as e:
        raise AnalysisError("clang AST of %s is not JSON: %s" % (path, e))


def c_errors(path: str, include_dirs: List[str] = ()) -> List[str]:
    r = run_clang(["-std=c11", "-fsyntax-only"] + ["-I" + d for d in include_dirs] + [path], cwd=os.path.dirname(path))
    return [l for l in r.stderr.splitlines() if " error: " in l]


def functions(tu: CNode, only_file: Optional[str] = None) -> Dict[str, List[CNode]]:
    out: Dict[str, List[CNode]] = {}
    for x in tu.inner:
        if x.kind == "FunctionDecl" and x.get("name"):
            out.setdefault(x["name"], []).append(x)
    return out


def body_of(fn: CNode) -> Optional[CNode]:
    for c in fn.inner:
        if c.kind == "CompoundStmt":
            return c
    return None


def params_of(fn: CNode) -> List[CNode]:
    return [c for c in fn.inner if c.kind == "ParmVarDecl"]


def int_width(t: str) -> Optional[int]:
    t = t.replace("const ", "").strip()
    table = {"uint8_t": 8, "int8_t": 8, "unsigned char": 8, "signed char": 8, "char": 8, "uint16_t": 16, "int16_t": 16, "unsigned short": 16, "short": 16,
             "uint32_t": 32, "int32_t": 32, "unsigned int": 32, "int": 32, "uint64_t": 64, "int64_t": 64, "unsigned long": 64, "long": 64, "unsigned long long": 64, "long long": 64, "bool": 1, "_Bool": 1}
    return table.get(t)


def cxx_syntax_check(tu_text: str, include_dirs: List[str], std: str = "c++17"):
    """clang++ -fsyntax-only on a translation unit written by the checker. -> (ok, stderr)"""
    d = tempfile.mkdtemp(prefix="fcpverif-cxx-")
    try:
        p = os.path.join(d, "tu.cpp")
        with open(p, "w") as f:
            f.write(tu_text)
        r = run_clang(["-std=" + std, "-fsyntax-only", "-I", STUBS] + ["-I" + x for x in include_dirs] + [p])
        return r.returncode == 0, r.stderr
    finally:
        import shutil
        shutil.rmtree(d, ignore_errors=True)


def cxx_ast(tu_text: str, include_dirs: List[str], filt: Optional[str] = None, std: str = "c++17", allow_errors: bool = False, extra_files: Optional[Dict[str, str]] = None) -> List[CNode]:
    """JSON AST dump (optionally filtered by qualified-name prefix) of a checker-written TU."""
    d = tempfile.mkdtemp(prefix="fcpverif-cxx-")
    try:
        p = os.path.join(d, "tu.cpp")
        with open(p, "w") as f:
            f.write(tu_text)
        for fn, txt in (extra_files or {}).items():
            with open(os.path.join(d, fn), "w") as f:
                f.write(txt)
        args = ["-std=" + std, "-fsyntax-only", "-I", d, "-I", STUBS] + ["-I" + x for x in include_dirs] + ["-Xclang", "-ast-dump=json"]
        if allow_errors:
            args += ["-ferror-limit=0"]
        if filt:
            args += ["-Xclang", "-ast-dump-filter=" + filt]
        r = run_clang(args + [p], timeout=300)
        if r.returncode != 0 and not (allow_errors and r.stdout.strip()):
            raise AnalysisError("clang++ cannot parse the checker's translation unit: %s" % r.stderr[-400:])
        cxx_ast.last_errors = [l for l in r.stderr.splitlines() if " error: " in l]
        out = []
        dec = json.JSONDecoder()
        s = r.stdout
        i = 0
        n = len(s)
        while i < n:
            j = s.find("{", i)
            if j < 0:
                break
            # skip "Dumping xyz:" lines
            try:
                obj, k = dec.raw_decode(s, j)
            except json.JSONDecodeError:
                i = j + 1
                continue
            out.append(_wrap(obj))
            i = k
        return out
    finally:
        import shutil
        shutil.rmtree(d, ignore_errors=True)
