// Declaration-only stand-in for <nlohmann/json.hpp>, used by /verif's clang front end so
// that the repository's C++ headers can be *parsed and type-checked* (never linked or run).
#pragma once
#include <cstddef>
#include <string>
#include <initializer_list>
namespace nlohmann {
class json {
public:
    json();
    json(std::nullptr_t);
    json(const json&);
    json(std::initializer_list<json>);
    template <typename T> json(const T&);
    json& operator=(const json&);
    template <typename T> T get() const;
    json& operator[](std::size_t);
    const json& operator[](std::size_t) const;
    json& operator[](const std::string&);
    const json& operator[](const std::string&) const;
    json& operator[](const char*);
    const json& operator[](const char*) const;
    std::size_t size() const;
    bool is_null() const;
    bool empty() const;
    bool contains(const std::string&) const;
    void push_back(const json&);
    const json* begin() const;
    const json* end() const;
    std::string dump(int indent = -1) const;
    static json parse(const std::string&);
    static json array();
    static json object();
    bool operator==(const json&) const;
    bool operator!=(const json&) const;
    template <typename T> friend bool operator==(const T&, const json&);
    template <typename T> friend bool operator!=(const T&, const json&);
};
}  // namespace nlohmann
